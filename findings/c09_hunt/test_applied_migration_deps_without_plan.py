"""AFTER_MIGRATIONS on an applied migration crashes once no migration is pending.

This only uses the project's own on-disk fixture apps. The pending evolution
('evolutions_app2', 'test_evolution') declares

    AFTER_MIGRATIONS = [('migrations_app', '0001_initial')]

and that migration is already recorded as applied.

The requirement is discharged ("requirements on already-applied units are
ignored") only through migrations_info['to_mark_applied'], and
EvolveAppTask._build_migrations_info() only returns that key when there's a
pre- or post-stage migration plan, i.e. when at least one migration of some
queued app is still pending.

So the very same pending evolutions are scheduled fine while an unrelated
migration is still pending, and blow up with an AssertionError out of
DependencyGraph.finalize() once every migration is applied.

The second test hits the same thing through "the dependency implied by moving
an app to migrations": MoveToDjangoMigrations(mark_applied=['0001_initial'])
makes its evolution depend on ('tests', '0001_initial'). If the app has a
further migration to apply, that works. If 0001_initial is the app's only
migration (the plainest way of moving an app to migrations), there's no plan,
and the evolution can't be applied at all.
"""

from __future__ import unicode_literals

from django.db import DEFAULT_DB_ALIAS, connection, migrations, models

from django_evolution.compat.apps import get_app
from django_evolution.compat.db import sql_create_app
from django_evolution.consts import UpgradeMethod
from django_evolution.db.state import DatabaseState
from django_evolution.evolve import EvolveAppTask, Evolver
from django_evolution.models import Evolution, Version
from django_evolution.mutations import MoveToDjangoMigrations
from django_evolution.signature import AppSignature, ModelSignature
from django_evolution.tests import models as evo_test
from django_evolution.tests.base_test_case import (EvolutionTestCase,
                                                   MigrationsTestsMixin)
from django_evolution.tests.evolutions_app.models import EvolutionsAppTestModel
from django_evolution.tests.evolutions_app2.models import (
    EvolutionsApp2TestModel,
    EvolutionsApp2TestModel2)
from django_evolution.tests.models import BaseTestModel
from django_evolution.tests.utils import (ensure_test_db, execute_test_sql,
                                          replace_models)
from django_evolution.utils.migrations import (
    MigrationList,
    clear_global_custom_migrations,
    unrecord_applied_migrations)


class HuntBaseModel1(BaseTestModel):
    value = models.CharField(max_length=100)


class AppliedMigrationDepsWithoutPlanTests(MigrationsTestsMixin,
                                           EvolutionTestCase):
    needs_evolution_models = True
    default_base_model = HuntBaseModel1

    app_names = ['evolutions_app', 'evolutions_app2', 'migrations_app',
                 'migrations_app2']

    def tearDown(self):
        # prepare_tasks() doesn't clean this up when it fails.
        clear_global_custom_migrations()

        super(AppliedMigrationDepsWithoutPlanTests, self).tearDown()

    def _get_apps(self):
        return [
            get_app(app_name)
            for app_name in self.app_names
        ]

    def _setup_pre_upgrade(self, applied_migrations):
        """Set up the pre-upgrade state used by test_evolver.py.

        evolutions_app and evolutions_app2 are installed with their initial
        schema and (evolutions_app, first_evolution) applied. The migration
        apps are installed with their final schema.
        """
        for app_label in ('migrations_app', 'migrations_app2'):
            unrecord_applied_migrations(
                connection=Evolver().connection,
                app_label=app_label)

        self.ensure_deleted_apps()
        Evolution.objects.all().delete()
        Version.objects.all().delete()
        self.ensure_evolution_models()

        database_state = DatabaseState(DEFAULT_DB_ALIAS)

        class InitialEvolutionsAppTestModel(models.Model):
            char_field = models.CharField(max_length=10)
            char_field2 = models.CharField(max_length=20)

            class Meta:
                app_label = 'django_evolution'
                db_table = EvolutionsAppTestModel._meta.db_table

        class InitialEvolutionsApp2TestModel(models.Model):
            char_field = models.CharField(max_length=10)

            class Meta:
                app_label = 'django_evolution'
                db_table = EvolutionsApp2TestModel._meta.db_table

        apps_to_models = {
            'evolutions_app': [
                ('EvolutionsAppTestModel', InitialEvolutionsAppTestModel),
            ],
            'evolutions_app2': [
                ('EvolutionsApp2TestModel', InitialEvolutionsApp2TestModel),
                ('EvolutionsApp2TestModel2', EvolutionsApp2TestModel2),
            ],
        }

        version = Version.objects.current_version()
        project_sig = version.signature
        sql = []

        with replace_models(database_state=database_state,
                            apps_to_models=apps_to_models):
            for app in self._get_apps():
                project_sig.add_app_sig(AppSignature.from_app(
                    app,
                    database=DEFAULT_DB_ALIAS))
                sql += sql_create_app(app=app,
                                      db_name=DEFAULT_DB_ALIAS)

        execute_test_sql(sql, database=DEFAULT_DB_ALIAS)
        version.save()

        self.record_evolutions(version,
                               [('evolutions_app', 'first_evolution')])
        self.record_applied_migrations(applied_migrations)

    def _plan(self, applied_migrations):
        """Return what prepare_tasks() schedules, as plain data."""
        self._setup_pre_upgrade(applied_migrations)

        evolver = Evolver()
        tasks = [
            EvolveAppTask(evolver=evolver,
                          app=app)
            for app in self._get_apps()
        ]
        EvolveAppTask.prepare_tasks(evolver, tasks)

        evolution_batches = []

        for batch in evolver._evolve_app_task_state['batches']:
            if batch['type'] == UpgradeMethod.EVOLUTIONS:
                evolution_batches.append([
                    (task.app_label, task_info['evolutions'],
                     task_info.get('sql'))
                    for task, task_info in batch['task_evolutions'].items()
                ])

        return evolution_batches

    def test_applied_migration_dependency_is_ignored(self):
        """AFTER_MIGRATIONS on an applied migration is ignored whether or not
        other migrations are still pending
        """
        # An unrelated migration is still pending. This works.
        with_pending = self._plan([
            ('migrations_app', '0001_initial'),
            ('migrations_app', '0002_add_field'),
            ('migrations_app2', '0001_initial'),
        ])

        self.assertEqual(
            [[(app_label, labels) for app_label, labels, sql in batch]
             for batch in with_pending],
            [[
                ('evolutions_app2', ['test_evolution']),
                ('evolutions_app', ['second_evolution']),
            ]])

        # Every migration is applied. The evolutions are the same, and so
        # must be their schedule.
        all_applied = self._plan([
            ('migrations_app', '0001_initial'),
            ('migrations_app', '0002_add_field'),
            ('migrations_app2', '0001_initial'),
            ('migrations_app2', '0002_add_field'),
        ])

        self.assertEqual(all_applied, with_pending)

    def _move_to_migrations(self, with_second_migration):
        """Move the tests app to migrations, returning what happened.

        Returns:
            tuple:
            (recorded evolution labels, recorded migration targets,
            signature upgrade method, signature applied migrations)
        """
        class MoveTestModel(BaseTestModel):
            field1 = models.IntegerField()

        class InitialMigration(migrations.Migration):
            operations = [
                migrations.CreateModel(
                    name='TestModel',
                    fields=[
                        ('id', models.AutoField(verbose_name='ID',
                                                serialize=False,
                                                auto_created=True,
                                                primary_key=True)),
                        ('field1', models.IntegerField()),
                    ]
                ),
            ]

        class AlterFieldMigration(migrations.Migration):
            dependencies = [
                ('tests', '0001_initial'),
            ]

            operations = [
                migrations.AlterField(
                    model_name='TestModel',
                    name='field1',
                    field=models.IntegerField(help_text='Changed')),
            ]

        unrecord_applied_migrations(connection=connection,
                                    app_label='tests')
        Evolution.objects.all().delete()
        Version.objects.all().delete()
        self.ensure_evolution_models()

        self.set_base_model(MoveTestModel)
        version = Version.objects.current_version()
        app_sig = AppSignature(app_id='tests',
                               upgrade_method=UpgradeMethod.EVOLUTIONS)
        app_sig.add_model_sig(ModelSignature.from_model(MoveTestModel))
        version.signature.add_app_sig(app_sig)
        version.save()

        app_migrations = [InitialMigration('0001_initial', 'tests')]

        if with_second_migration:
            app_migrations.append(
                AlterFieldMigration('0002_alter_field', 'tests'))

        with ensure_test_db(model_entries=[('TestModel', MoveTestModel)]):
            evolver = Evolver()
            evolver.queue_task(EvolveAppTask(
                evolver=evolver,
                app=evo_test,
                evolutions=[
                    {
                        'label': 'move_to_migrations',
                        'mutations': [
                            MoveToDjangoMigrations(
                                mark_applied=['0001_initial']),
                        ],
                    },
                ],
                migrations=app_migrations))
            evolver.evolve()

            app_sig = evolver.project_sig.get_app_sig('tests')

            return (
                list(Evolution.objects.filter(app_label='tests')
                     .values_list('label', flat=True)),
                MigrationList.from_database(
                    connection, app_label='tests').to_targets(),
                app_sig.upgrade_method,
                set(app_sig.applied_migrations),
            )

    def test_move_to_migrations_with_only_initial_migration(self):
        """MoveToDjangoMigrations works when the migration it marks as
        applied is the app's only migration
        """
        two = self._move_to_migrations(with_second_migration=True)

        self.assertEqual(
            two,
            (['move_to_migrations'],
             {('tests', '0001_initial'), ('tests', '0002_alter_field')},
             UpgradeMethod.MIGRATIONS,
             {'0001_initial', '0002_alter_field'}))

        one = self._move_to_migrations(with_second_migration=False)

        # Same as above, minus the second migration.
        self.assertEqual(
            one,
            (two[0],
             two[1] - {('tests', '0002_alter_field')},
             two[2],
             two[3] - {'0002_alter_field'}))
