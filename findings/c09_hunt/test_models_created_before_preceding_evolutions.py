"""New models are created BEFORE evolutions that the graph puts before them.

evolutions_app (installed) has a pending evolution that declares
BEFORE_EVOLUTIONS = ['tests'], which the documentation describes as "applied
before the ``tests`` app's evolutions/models". The ``tests`` app is new and
has a model to create.

EvolutionGraph orders the evolution before the model creation. The comment in
EvolveAppTask._build_batches() says a create-model batch "will always be the
start of a new batch. It cannot merge into a preceding evolutions batch", but
the code merges it anyway (same UpgradeMethod.EVOLUTIONS batch type), and
execute_tasks() creates all models of a batch before applying any of the
batch's evolutions.

The planned order is taken from the real graph built by
_build_evolutions_graph(), and the executed order from the signals emitted by
execute_tasks().
"""

from __future__ import unicode_literals

from django.db import models

from django_evolution.compat.apps import get_app
from django_evolution.evolve import EvolveAppTask, Evolver
from django_evolution.mutations import ChangeField
from django_evolution.signals import applying_evolution, creating_models
from django_evolution.tests import models as evo_test
from django_evolution.tests.base_test_case import (EvolutionTestCase,
                                                   MigrationsTestsMixin)
from django_evolution.tests.models import BaseTestModel
from django_evolution.utils.migrations import clear_global_custom_migrations


class HuntBaseModel3(BaseTestModel):
    value = models.CharField(max_length=100)


class ModelsCreatedBeforePrecedingEvolutionsTests(MigrationsTestsMixin,
                                                  EvolutionTestCase):
    needs_evolution_models = True
    default_base_model = HuntBaseModel3

    def setUp(self):
        super(ModelsCreatedBeforePrecedingEvolutionsTests, self).setUp()

        self.executed = []
        applying_evolution.connect(self._on_evolution)
        creating_models.connect(self._on_models)

    def tearDown(self):
        clear_global_custom_migrations()
        super(ModelsCreatedBeforePrecedingEvolutionsTests, self).tearDown()

        applying_evolution.disconnect(self._on_evolution)
        creating_models.disconnect(self._on_models)

    def _on_evolution(self, sender, task, evolutions, **kwargs):
        for evolution in evolutions:
            self.executed.append('evolution:%s:%s' % (evolution.app_label,
                                                      evolution.label))

    def _on_models(self, sender, app_label, model_names, **kwargs):
        for model_name in model_names:
            self.executed.append('create-model:%s:%s'
                                 % (app_label, model_name.lower()))

    def test_execution_follows_graph_order(self):
        """Models of a new app are created after the evolutions that the
        graph orders before them
        """
        other_app = get_app('evolutions_app')

        self.ensure_deleted_apps()
        self.ensure_evolved_apps([other_app])
        self.executed = []

        evolver = Evolver()
        tasks = [
            # A brand new app with one model to create.
            EvolveAppTask(evolver=evolver,
                          app=evo_test),

            # An installed app with an evolution that has to come before
            # anything the new app does.
            EvolveAppTask(
                evolver=evolver,
                app=other_app,
                evolutions=[
                    {
                        'label': 'before_tests',
                        'before_evolutions': ['tests'],
                        'mutations': [
                            ChangeField('EvolutionsAppTestModel',
                                        'char_field', max_length=50),
                        ],
                    },
                ]),
        ]

        # Grab the real graph as it's built.
        graphs = []
        orig_func = EvolveAppTask._build_evolutions_graph.__func__

        def _build_evolutions_graph(cls, **kwargs):
            graph = orig_func(cls, **kwargs)
            graphs.append(graph)

            return graph

        EvolveAppTask._build_evolutions_graph = \
            classmethod(_build_evolutions_graph)

        try:
            EvolveAppTask.prepare_tasks(evolver, tasks)
        finally:
            EvolveAppTask._build_evolutions_graph = classmethod(orig_func)

        planned = [
            node.key
            for node in graphs[0].get_ordered()
            if not node.state.get('anchor')
        ]

        EvolveAppTask.execute_tasks(evolver, tasks)

        print('\nplanned:  %r\nexecuted: %r' % (planned, self.executed))

        # Sanity-check the plan against the declared requirement.
        self.assertLess(planned.index('evolution:evolutions_app:before_tests'),
                        planned.index('create-model:tests:testmodel'))

        self.assertEqual(self.executed, planned)
