"""An app's remaining migrations can run BEFORE the app's own evolutions.

An app ("tests") has two pending evolutions, the last of which is
MoveToDjangoMigrations(mark_applied=['0001_initial']), plus a pending
migration 0002_add_field (depending on 0001_initial). The only thing that
keeps 0002_add_field after the evolutions is the insertion order of the
nodes in the EvolutionGraph ("loose default ordering"); there's no edge.

As soon as anything else in the graph depends on ('tests', '0002_add_field')
(here: another app's evolution with AFTER_MIGRATIONS; an initial migration of
another app depending on it has the same effect), the depth-first walk pulls
the migration in front of the app's evolutions.

Both runs below go through the real prepare_tasks()/execute_tasks(). They
only differ in whether the second app (with the AFTER_MIGRATIONS declaration)
is queued. The resulting schema of the "tests" table must be the same, and
the app's evolutions must precede the app's migration in both.
"""

from __future__ import unicode_literals

from django.db import connection, migrations, models

from django_evolution.compat.apps import get_app
from django_evolution.consts import UpgradeMethod
from django_evolution.evolve import EvolveAppTask, Evolver
from django_evolution.models import Evolution, Version
from django_evolution.mutations import (AddField, ChangeField,
                                        MoveToDjangoMigrations)
from django_evolution.signals import (applying_evolution, applying_migration)
from django_evolution.signature import AppSignature, ModelSignature
from django_evolution.tests import models as evo_test
from django_evolution.tests.base_test_case import (EvolutionTestCase,
                                                   MigrationsTestsMixin)
from django_evolution.tests.models import BaseTestModel
from django_evolution.tests.utils import ensure_test_db
from django_evolution.utils.migrations import unrecord_applied_migrations


class HuntBaseModel2(BaseTestModel):
    value = models.CharField(max_length=100)


class MigrationsBeforeOwnEvolutionsTests(MigrationsTestsMixin,
                                         EvolutionTestCase):
    needs_evolution_models = True
    default_base_model = HuntBaseModel2

    def setUp(self):
        super(MigrationsBeforeOwnEvolutionsTests, self).setUp()

        self.order = []
        applying_evolution.connect(self._on_evolution)
        applying_migration.connect(self._on_migration)

    def tearDown(self):
        super(MigrationsBeforeOwnEvolutionsTests, self).tearDown()

        applying_evolution.disconnect(self._on_evolution)
        applying_migration.disconnect(self._on_migration)

    def _on_evolution(self, sender, task, evolutions, **kwargs):
        for evolution in evolutions:
            self.order.append(('evolution', evolution.app_label,
                               evolution.label))

    def _on_migration(self, sender, migration, **kwargs):
        self.order.append(('migration', migration.app_label, migration.name))

    def _run(self, with_other_app):
        """Run the upgrade and return (execution order, tests table SQL)."""
        class EvolveMigrateTestModel(BaseTestModel):
            field1 = models.IntegerField()

        class InitialMigration(migrations.Migration):
            operations = [
                migrations.CreateModel(
                    name='TestModel',
                    fields=[
                        ('id', models.AutoField(verbose_name='ID',
                                                serialize=False,
                                                auto_created=True,
                                                primary_key=True)),
                        ('field1', models.IntegerField()),
                        ('field2', models.CharField(max_length=10)),
                    ]
                ),
            ]

        class AddFieldMigration(migrations.Migration):
            dependencies = [
                ('tests', '0001_initial'),
            ]

            operations = [
                migrations.AddField(
                    model_name='TestModel',
                    name='field3',
                    field=models.BooleanField(default=False)),
            ]

        # Start from scratch.
        unrecord_applied_migrations(connection=connection, app_label='tests')
        self.ensure_deleted_apps()
        Evolution.objects.all().delete()
        Version.objects.all().delete()
        self.ensure_evolution_models()

        other_app = get_app('evolutions_app')
        self.ensure_evolved_apps([other_app])

        # Store a "tests" app with TestModel(field1), managed by evolutions.
        self.set_base_model(EvolveMigrateTestModel)
        version = Version.objects.current_version()
        app_sig = AppSignature(app_id='tests',
                               upgrade_method=UpgradeMethod.EVOLUTIONS)
        app_sig.add_model_sig(ModelSignature.from_model(
            EvolveMigrateTestModel))
        version.signature.add_app_sig(app_sig)
        version.save()

        self.order = []

        with ensure_test_db(model_entries=[('TestModel',
                                            EvolveMigrateTestModel)]):
            evolver = Evolver()
            tasks = []

            if with_other_app:
                tasks.append(EvolveAppTask(
                    evolver=evolver,
                    app=other_app,
                    evolutions=[
                        {
                            'label': 'needs_tests_0002',
                            'after_migrations': [
                                ('tests', '0002_add_field'),
                            ],
                            'mutations': [
                                ChangeField('EvolutionsAppTestModel',
                                            'char_field', max_length=50),
                            ],
                        },
                    ]))

            tasks.append(EvolveAppTask(
                evolver=evolver,
                app=evo_test,
                evolutions=[
                    {
                        'label': 'add_field2',
                        'mutations': [
                            AddField('TestModel', 'field2',
                                     models.CharField, max_length=10,
                                     initial=0),
                        ],
                    },
                    {
                        'label': 'move_to_migrations',
                        'mutations': [
                            MoveToDjangoMigrations(
                                mark_applied=['0001_initial']),
                        ],
                    },
                ],
                migrations=[
                    InitialMigration('0001_initial', 'tests'),
                    AddFieldMigration('0002_add_field', 'tests'),
                ]))

            for task in tasks:
                evolver.queue_task(task)

            EvolveAppTask.prepare_tasks(evolver, tasks)
            EvolveAppTask.execute_tasks(evolver, tasks)

            with connection.cursor() as cursor:
                cursor.execute(
                    "SELECT sql FROM sqlite_master"
                    " WHERE name = 'tests_testmodel'")
                table_sql = cursor.fetchone()[0]

        return list(self.order), table_sql

    def test_migrations_wait_for_own_evolutions(self):
        """An app's post-stage migrations are applied after its evolutions,
        whatever else depends on those migrations
        """
        alone_order, alone_sql = self._run(with_other_app=False)
        both_order, both_sql = self._run(with_other_app=True)

        print('\nalone: %r\n       %s' % (alone_order, alone_sql))
        print('both:  %r\n       %s' % (both_order, both_sql))

        for order in (alone_order, both_order):
            tests_order = [item for item in order if item[1] == 'tests']

            # Sequence order + the dependency implied by moving to migrations.
            self.assertEqual(
                tests_order,
                [
                    ('evolution', 'tests', 'add_field2'),
                    ('evolution', 'tests', 'move_to_migrations'),
                    ('migration', 'tests', '0002_add_field'),
                ])

        # The declared dependency was honoured ...
        self.assertLess(
            both_order.index(('migration', 'tests', '0002_add_field')),
            both_order.index(('evolution', 'evolutions_app',
                              'needs_tests_0002')))

        # ... and queuing another app didn't change the resulting table.
        self.assertEqual(both_sql, alone_sql)
