"""Installing an app for the first time EXECUTES its SQL evolutions.

When an app isn't in the stored signature yet, EvolveAppTask.prepare() copies
the app's current signature, creates the models with their latest schema, and
puts the app's whole evolution SEQUENCE in ``new_evolutions`` so that the
evolutions are recorded as applied ("mark all evolutions for the app as
applied"). Nothing is supposed to be executed for them (see also the comment
in MoveToDjangoMigrations.generate_dependencies()).

Those evolutions still get nodes in the EvolutionGraph (for dependency
purposes), and EvolveAppTask._build_batches() treats every evolution node as
pending. The only thing that neutralises them is the "changed models" filter
in get_app_pending_mutations(), which lets through any mutation without a
``model_name`` -- such as SQLMutation. The SQL is then run against the
freshly-created, already up-to-date table.

Both installs below are fresh installs of the very same model through
Evolver.evolve(). The only difference is whether the app ships an (already
obsolete) SQL evolution.
"""

from __future__ import unicode_literals

from django.db import connection, models
from django.test.utils import override_settings

from django_evolution.compat.db import sql_delete
from django_evolution.evolve import Evolver
from django_evolution.models import Evolution, Version
from django_evolution.signals import applying_evolution
from django_evolution.tests import models as evo_test
from django_evolution.tests.base_test_case import (EvolutionTestCase,
                                                   MigrationsTestsMixin)
from django_evolution.tests.models import BaseTestModel
from django_evolution.tests.utils import execute_test_sql
from django_evolution.utils.apps import get_app_name
from django_evolution.utils.migrations import clear_global_custom_migrations


class HuntBaseModel4(BaseTestModel):
    value = models.CharField(max_length=100)
    value2 = models.IntegerField(null=True)


class NewAppEvolutionsExecutedTests(MigrationsTestsMixin, EvolutionTestCase):
    needs_evolution_models = True
    default_base_model = HuntBaseModel4

    def setUp(self):
        super(NewAppEvolutionsExecutedTests, self).setUp()

        self.executed = []
        applying_evolution.connect(self._on_evolution)

    def tearDown(self):
        clear_global_custom_migrations()
        applying_evolution.disconnect(self._on_evolution)

        try:
            execute_test_sql(sql_delete(evo_test))
        except Exception:
            pass

        super(NewAppEvolutionsExecutedTests, self).tearDown()

    def _on_evolution(self, sender, task, evolutions, **kwargs):
        self.executed += [
            (evolution.app_label, evolution.label)
            for evolution in evolutions
        ]

    def _fresh_install(self, custom_evolutions):
        """Install the tests app from scratch.

        Returns:
            tuple:
            (executed evolutions, recorded evolutions, table SQL)
        """
        try:
            execute_test_sql(sql_delete(evo_test))
        except Exception:
            pass

        Evolution.objects.all().delete()
        Version.objects.all().delete()
        self.ensure_evolution_models()
        self.executed = []

        with override_settings(DJANGO_EVOLUTION={
            'CUSTOM_EVOLUTIONS': custom_evolutions,
        }):
            evolver = Evolver()
            self.assertIsNone(evolver.project_sig.get_app_sig('tests'))

            evolver.queue_evolve_app(evo_test)
            evolver.evolve()

        with connection.cursor() as cursor:
            cursor.execute("SELECT sql FROM sqlite_master"
                           " WHERE name = 'tests_testmodel'")
            table_sql = cursor.fetchone()[0]

        recorded = list(
            Evolution.objects.filter(app_label='tests')
            .values_list('label', flat=True))

        return list(self.executed), recorded, table_sql

    def test_fresh_install_only_records_evolutions(self):
        """A fresh install creates the models and records the app's
        evolutions, without executing them
        """
        plain = self._fresh_install({})
        self.assertEqual(plain[0], [])
        self.assertEqual(plain[1], [])

        # Unmodified code: raises EvolutionExecutionError ("duplicate column
        # name: value2"), as the SQL evolution is run on the new table.
        with_sql_evolution = self._fresh_install({
            get_app_name(evo_test): 'hunt_demo.fixture_sql_evolutions',
        })

        # Nothing is executed, the evolution is recorded, and the table is
        # the same.
        self.assertEqual(with_sql_evolution[0], [])
        self.assertEqual(with_sql_evolution[1], ['add_value2'])
        self.assertEqual(with_sql_evolution[2], plain[2])
