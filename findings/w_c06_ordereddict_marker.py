"""F-C06b witness: a stored signature that contains a deconstructed value
(Q / F / Deferrable ... inside a constraint or index) does not read back:
SignatureField loads the JSON with object_pairs_hook=OrderedDict, but the
reader dispatch in serialization._get_serializer_for_value only recognises
the {'_deconstructed': True} / {'_enum': True} markers when
`type(value) is dict`.  An OrderedDict is not `dict`, so the marker mapping is
returned as a mapping instead of being rebuilt into the object."""
import _boot  # noqa
from django.db import models
from django.db.models import Q
from django_evolution.models import SignatureField
from django_evolution.signature import (ConstraintSignature, ModelSignature,
                                        AppSignature, ProjectSignature)

c = models.CheckConstraint(check=Q(a__gt=1), name='w_check')
csig = ConstraintSignature.from_constraint(c)
m = ModelSignature(model_name='M', table_name='t')
m.add_constraint_sig(csig)
a = AppSignature(app_id='app')
a.add_model_sig(m)
p = ProjectSignature()
p.add_app_sig(a)

f = SignatureField()
stored = f._dumps(p)                     # what Version.save() writes
back = f.to_python(stored)               # what a later Version load reads
bc = list(back.get_app_sig('app').get_model_sig('M').constraint_sigs)[0]
print('stored text  :', stored[:200])
print('original attr:', csig.attrs)
print('reloaded attr:', bc.attrs)
print('project equal after round trip:', p == back)
print('diff after round trip:', dict(p.diff(back)))
assert p == back, 'reloaded signature differs from the one written'
