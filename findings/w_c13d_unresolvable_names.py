"""F-C13d witness: hinted evolution text references names it never imports.
(1) an expression index using a database function renders as models.Lower,
    which django.db.models does not export;
(2) a deconstructible / enum from outside django.db.models renders as a bare
    or dotted name with no import line."""
import _boot  # noqa
import enum
from django.db import models
from django.db.models.functions import Lower
from django_evolution.mutations import ChangeMeta
from django_evolution.signature import IndexSignature
from django_evolution.serialization import serialize_to_python

idx = models.Index(Lower('title'), name='w_lower_idx')
sig = IndexSignature.from_index(idx)
m = ChangeMeta('Book', 'indexes', [dict(sig.attrs, expressions=sig.expressions, name=sig.name)])
hint = str(m)
print(hint)
text = 'from django.db import models\nfrom django_evolution.mutations import ChangeMeta\nMUTATIONS = [\n    %s,\n]\n' % hint
try:
    exec(text, {})
    print('loaded')
    ok1 = True
except Exception as e:
    print('loading the hinted evolution fails: %s: %s' % (type(e).__name__, e))
    ok1 = False


class Color(enum.Enum):
    RED = 1


print(serialize_to_python(Color.RED), '<- no import for module', Color.__module__)
assert ok1
