"""Perturbation sweep for the evolve gate (exploration tool, not a demo).

Run with:
    /venv/bin/python -m pytest hunt_demo/fuzz_gate.py --rootdir=/tmp/hunt/c12 \
        -c /tmp/hunt/c12/setup.cfg -p no:cacheprovider -q -s

For a few (old models, new models, valid evolution) scenarios, every single
perturbation (drop / duplicate / swap / retarget model / rename field /
change or remove an attribute / remove initial) is run through the real
``evolve --execute --noinput`` command. Two oracles, both computed from the
real code:

* the harness oracle (gate passed => simulated signature == current models,
  rejected => database untouched);
* a "one at a time" oracle: the same mutations are simulated strictly in
  order with ``run_simulation`` (no pre-processing, no filtering) on a clone
  of the stored signature. If that fails or leaves a residual diff while the
  command executed the upgrade, the case is reported.
"""

from __future__ import unicode_literals

import copy
import json
import os

from django.db import models

from django_evolution.db.state import DatabaseState
from django_evolution.diff import Diff
from django_evolution.errors import EvolutionException
from django_evolution.mutations import *  # noqa
from django_evolution.tests.models import BaseTestModel
from hunt_demo.gate_harness import GateTestCase, normalize_model_sig


REPORT = os.environ.get('HUNT_FUZZ_REPORT', '/tmp/hunt_c12_fuzz_report.jsonl')


class Mut(object):
    def __init__(self, cls, *args, **kwargs):
        self.cls = cls
        self.args = list(args)
        self.kwargs = dict(kwargs)

    def clone(self):
        return copy.deepcopy(self)

    def render(self):
        parts = [
            str(arg) if isinstance(arg, Raw) else repr(arg)
            for arg in self.args
        ]

        for key in sorted(self.kwargs):
            value = self.kwargs[key]

            if isinstance(value, Raw):
                parts.append('%s=%s' % (key, value))
            else:
                parts.append('%s=%r' % (key, value))

        return '%s(%s)' % (self.cls, ', '.join(parts))


class Raw(str):
    def __repr__(self):
        return str(self)


# ---------------------------------------------------------------------------
# Scenarios
# ---------------------------------------------------------------------------
def scenario_fields():
    class Old(BaseTestModel):
        name = models.CharField(max_length=20)
        note = models.CharField(max_length=20, null=True)
        gone = models.IntegerField(null=True)
        old_name = models.IntegerField(null=True)

    class Side(BaseTestModel):
        label = models.CharField(max_length=20)

    class New(BaseTestModel):
        name = models.CharField(max_length=40)
        note = models.CharField(max_length=20)
        new_name = models.IntegerField(null=True)
        added = models.IntegerField()
        opt = models.CharField(max_length=5, null=True, db_column='opt_col')

    class Side2(BaseTestModel):
        label = models.CharField(max_length=20)

    old = [('TestModel', Old), ('Side', Side)]
    new = [('TestModel', New), ('Side', Side2)]
    muts = [
        Mut('ChangeField', 'TestModel', 'name', max_length=40),
        Mut('ChangeField', 'TestModel', 'note', null=False, initial=''),
        Mut('DeleteField', 'TestModel', 'gone'),
        Mut('RenameField', 'TestModel', 'old_name', 'new_name'),
        Mut('AddField', 'TestModel', 'added', Raw('models.IntegerField'),
            initial=7),
        Mut('AddField', 'TestModel', 'opt', Raw('models.CharField'),
            max_length=5, null=True, db_column='opt_col'),
    ]

    return old, new, muts


def scenario_models():
    class Author(BaseTestModel):
        name = models.CharField(max_length=20)

    class Book(BaseTestModel):
        title = models.CharField(max_length=20)

    class Obsolete(BaseTestModel):
        value = models.IntegerField()

    class Person(BaseTestModel):
        name = models.CharField(max_length=20)

        class Meta(BaseTestModel.Meta):
            db_table = 'hunt_people'

    class Author2(BaseTestModel):
        name = models.CharField(max_length=20)

    class Book2(BaseTestModel):
        title = models.CharField(max_length=20)
        author = models.ForeignKey(Author2, null=True,
                                   on_delete=models.CASCADE)
        editors = models.ManyToManyField(Author2, related_name='+')

    class Customer(BaseTestModel):
        name = models.CharField(max_length=20)

        class Meta(BaseTestModel.Meta):
            db_table = 'hunt_people'

    old = [('Author', Author), ('Book', Book), ('Obsolete', Obsolete),
           ('Person', Person)]
    new = [('Author', Author2), ('Book', Book2), ('Customer', Customer)]
    muts = [
        Mut('AddField', 'Book', 'author', Raw('models.ForeignKey'),
            null=True, related_model='tests.Author'),
        Mut('AddField', 'Book', 'editors', Raw('models.ManyToManyField'),
            related_model='tests.Author'),
        Mut('DeleteModel', 'Obsolete'),
        Mut('RenameModel', 'Person', 'Customer', db_table='hunt_people'),
    ]

    return old, new, muts


def scenario_meta():
    class Old(BaseTestModel):
        a = models.CharField(max_length=20, null=True)
        b = models.IntegerField()
        c = models.IntegerField(db_index=True)

    class New(BaseTestModel):
        a = models.IntegerField()
        b = models.IntegerField(unique=True)
        c = models.IntegerField()

        class Meta(BaseTestModel.Meta):
            unique_together = [('a', 'c')]

    old = [('TestModel', Old)]
    new = [('TestModel', New)]
    muts = [
        Mut('ChangeField', 'TestModel', 'a',
            field_type=Raw('models.IntegerField'), null=False, initial=0),
        Mut('ChangeField', 'TestModel', 'b', unique=True),
        Mut('ChangeField', 'TestModel', 'c', db_index=False),
        Mut('ChangeMeta', 'TestModel', 'unique_together', [('a', 'c')]),
    ]

    return old, new, muts


def _rel_old():
    class Tag(BaseTestModel):
        name = models.CharField(max_length=20)

    class Item(BaseTestModel):
        title = models.CharField(max_length=20)
        tags = models.ManyToManyField(Tag, related_name='+')
        owner = models.ForeignKey(Tag, null=True, db_column='owner_fk',
                                  on_delete=models.CASCADE,
                                  related_name='+')

    class Child(Item):
        extra = models.IntegerField(null=True)

    return [('Tag', Tag), ('Item', Item), ('Child', Child)]


def _rel_new():
    class Tag(BaseTestModel):
        name = models.CharField(max_length=20)

    class Item(BaseTestModel):
        title = models.CharField(max_length=20)
        labels = models.ManyToManyField(Tag, related_name='+')
        holder = models.ForeignKey(Tag, null=True, db_column='owner_fk',
                                   on_delete=models.CASCADE,
                                   related_name='+')

    class Child(Item):
        extra2 = models.CharField(max_length=8, default='\u00e9t\u00e9')

    return [('Tag', Tag), ('Item', Item), ('Child', Child)]


def scenario_rel():
    muts = [
        Mut('RenameField', 'Item', 'tags', 'labels'),
        Mut('RenameField', 'Item', 'owner', 'holder', db_column='owner_fk'),
        Mut('DeleteField', 'Child', 'extra'),
        Mut('AddField', 'Child', 'extra2', Raw('models.CharField'),
            max_length=8, initial='\u00e9t\u00e9'),
    ]

    return _rel_old(), _rel_new(), muts


SCENARIOS = {
    'rel': scenario_rel,
    'fields': scenario_fields,
    'models': scenario_models,
    'meta': scenario_meta,
}

MODEL_NAMES = {
    'rel': ['Tag', 'Item', 'Child', 'Ghost'],
    'fields': ['TestModel', 'Side', 'Ghost'],
    'models': ['Author', 'Book', 'Obsolete', 'Person', 'Customer', 'Ghost'],
    'meta': ['TestModel', 'Ghost'],
}

FIELD_NAMES = {
    'rel': ['title', 'tags', 'labels', 'owner', 'holder', 'extra', 'extra2',
            'item_ptr', 'id', 'ghost'],
    'fields': ['name', 'note', 'gone', 'old_name', 'new_name', 'added', 'id',
               'ghost'],
    'models': ['title', 'name', 'author', 'editors', 'id', 'ghost'],
    'meta': ['a', 'b', 'c', 'id', 'ghost'],
}

ATTR_VALUES = {
    'max_length': [5, 41],
    'null': [True, False],
    'initial': [None],
    'db_column': ['other_col', None],
    'db_table': ['hunt_poeple', 'tests_customer'],
    'related_model': ['tests.Book', 'tests.Ghost', 'ghostapp.Author'],
    'unique': [False],
    'db_index': [True],
    'field_type': [Raw('models.CharField'), Raw('models.BigIntegerField')],
}


def perturbations(name, muts):
    """Yield (label, perturbed list)."""
    n = len(muts)

    for i in range(n):
        yield 'drop[%d]' % i, muts[:i] + muts[i + 1:]

    for i in range(n):
        yield 'dup_adjacent[%d]' % i, muts[:i + 1] + [muts[i]] + muts[i + 1:]
        yield 'dup_end[%d]' % i, muts + [muts[i]]

    for i in range(n):
        for j in range(i + 1, n):
            swapped = list(muts)
            swapped[i], swapped[j] = swapped[j], swapped[i]
            yield 'swap[%d,%d]' % (i, j), swapped

    for i, mut in enumerate(muts):
        # Retarget the model (1st positional arg).
        for model_name in MODEL_NAMES[name]:
            if model_name != mut.args[0]:
                new = mut.clone()
                new.args[0] = model_name
                yield ('model[%d]=%s' % (i, model_name),
                       muts[:i] + [new] + muts[i + 1:])

        # Rename the field / new model name (2nd positional arg).
        if mut.cls in ('AddField', 'ChangeField', 'DeleteField',
                       'RenameField'):
            for field_name in FIELD_NAMES[name]:
                if field_name != mut.args[1]:
                    new = mut.clone()
                    new.args[1] = field_name
                    yield ('field[%d]=%s' % (i, field_name),
                           muts[:i] + [new] + muts[i + 1:])

        if mut.cls == 'RenameField':
            for field_name in FIELD_NAMES[name]:
                if field_name != mut.args[2]:
                    new = mut.clone()
                    new.args[2] = field_name
                    yield ('newfield[%d]=%s' % (i, field_name),
                           muts[:i] + [new] + muts[i + 1:])

        if mut.cls == 'RenameModel':
            for model_name in MODEL_NAMES[name]:
                if model_name != mut.args[1]:
                    new = mut.clone()
                    new.args[1] = model_name
                    yield ('newmodel[%d]=%s' % (i, model_name),
                           muts[:i] + [new] + muts[i + 1:])

        if mut.cls == 'ChangeMeta':
            for value in ([('a', 'b')], [('a', 'ghost')], [], [('c', 'a')]):
                new = mut.clone()
                new.args[2] = value
                yield ('meta[%d]=%r' % (i, value),
                       muts[:i] + [new] + muts[i + 1:])

            new = mut.clone()
            new.args[1] = 'index_together'
            yield ('metaprop[%d]' % i, muts[:i] + [new] + muts[i + 1:])

        # Attributes.
        for key in sorted(mut.kwargs):
            new = mut.clone()
            del new.kwargs[key]
            yield ('rm_%s[%d]' % (key, i), muts[:i] + [new] + muts[i + 1:])

            for value in ATTR_VALUES.get(key, []):
                if value != mut.kwargs[key]:
                    new = mut.clone()
                    new.kwargs[key] = value
                    yield ('%s[%d]=%s' % (key, i, value),
                           muts[:i] + [new] + muts[i + 1:])

        if mut.cls in ('AddField', 'ChangeField'):
            for key in ('null', 'unique', 'db_index', 'max_length',
                        'db_column'):
                if key not in mut.kwargs:
                    for value in ATTR_VALUES[key]:
                        if value is None:
                            continue

                        new = mut.clone()
                        new.kwargs[key] = value
                        yield ('add_%s[%d]=%s' % (key, i, value),
                               muts[:i] + [new] + muts[i + 1:])


class FuzzGateTests(GateTestCase):
    def _sequential(self, result, source):
        """One-at-a-time strict simulation of the same mutations."""
        namespace = {'models': models}
        exec('from django_evolution.mutations import *', namespace)
        exec(source, namespace)
        mutations = namespace['MUTATIONS']

        sig = result.stored_sig_before.clone()
        app_sig = sig.get_app_sig('tests')
        target_app_sig = result.target_sig.get_app_sig('tests')
        db_state = DatabaseState('default')

        # Like EvolveAppTask.prepare(): models without a table are new.
        for model_sig in target_app_sig.model_sigs:
            if (app_sig.get_model_sig(model_sig.model_name) is None and
                not db_state.has_table(model_sig.table_name)):
                app_sig.add_model_sig(model_sig.clone())

        try:
            for mutation in mutations:
                mutation.run_simulation(app_label='tests',
                                        project_sig=sig,
                                        database_state=db_state,
                                        database='default')
        except EvolutionException as e:
            return 'seq_fail', '%s' % e
        except Exception as e:
            return 'seq_crash', '%s: %s' % (type(e).__name__, e)

        new_app_sig = sig.get_app_sig('tests')

        if new_app_sig is None:
            return 'seq_residual', 'app gone'

        simulated = dict((m.model_name, normalize_model_sig(m))
                         for m in new_app_sig.model_sigs)
        target = dict((m.model_name, normalize_model_sig(m))
                      for m in target_app_sig.model_sigs)

        if simulated != target:
            return 'seq_residual', '%s' % Diff(sig, result.target_sig)

        return 'seq_ok', ''

    def _run_case(self, name, label, muts):
        old, new, valid = SCENARIOS[name]()
        source = 'MUTATIONS = [\n%s\n]' % '\n'.join(
            '    %s,' % mut.render() for mut in muts)

        self.install(old)

        crash = None

        try:
            result = self.upgrade(new, [('e1', source)])
        except Exception as e:
            # A crash (non-EvolutionException) in the command.
            from django_evolution.utils.migrations import \
                clear_global_custom_migrations
            clear_global_custom_migrations()
            crash = '%s: %s' % (type(e).__name__, e)
            record = {
                'scenario': name, 'label': label, 'source': source,
                'cmd': 'crash', 'detail': crash,
            }

            with open(REPORT, 'a') as fp:
                fp.write(json.dumps(record) + '\n')

            return

        seq, seq_detail = self._sequential(result, source)

        harness_ok = True
        harness_msg = ''

        try:
            import io
            import contextlib

            with contextlib.redirect_stdout(io.StringIO()):
                self.check_gate(result)
        except AssertionError as e:
            harness_ok = False
            harness_msg = ('%s' % e)[:600]

        if not result.gate_passed:
            cmd = 'rejected'
        elif result.error:
            cmd = 'passed_then_failed'
        else:
            cmd = 'passed'

        record = {
            'scenario': name,
            'label': label,
            'source': source,
            'cmd': cmd,
            'error': '%s' % (result.error or ''),
            'touched': result.touched,
            'seq': seq,
            'seq_detail': seq_detail[:300],
            'harness_ok': harness_ok,
            'harness_msg': harness_msg,
        }

        with open(REPORT, 'a') as fp:
            fp.write(json.dumps(record) + '\n')


def _make_test(name, label, muts):
    def test(self):
        self._run_case(name, label, muts)

    return test


_only = os.environ.get('HUNT_FUZZ_SCENARIO')

for _name, _factory in sorted(SCENARIOS.items()):
    if _only and _only != _name:
        continue

    _old, _new, _muts = _factory()
    setattr(FuzzGateTests, 'test_%s_0000_valid' % _name,
            _make_test(_name, 'valid', _muts))

    for _i, (_label, _perturbed) in enumerate(perturbations(_name, _muts)):
        setattr(FuzzGateTests, 'test_%s_%04d' % (_name, _i + 1),
                _make_test(_name, _label, _perturbed))
