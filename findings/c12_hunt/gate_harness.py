"""Shared harness for the "evolve --execute gate" demonstrations.

The harness drives the REAL management command
(``call_command('evolve', execute=True, interactive=False)``) twice:

1. ``install(models)``: registers the *old* models as the ``tests`` app and
   runs ``evolve --execute --noinput`` so the tables, the stored project
   signature and the Evolution/Version rows are produced by the real code.

2. ``upgrade(models, evolutions)``: registers the *new* models, writes the
   evolution files to disk (a real package that is wired in through the
   documented ``settings.DJANGO_EVOLUTION['CUSTOM_EVOLUTIONS']`` setting) and
   runs ``evolve --execute --noinput`` again.

Around the second run, a snapshot of the whole SQLite database (schema from
``sqlite_master`` plus every row of every table, which includes the
``django_evolution`` and ``django_project_version`` tables) is taken.

``check_gate()`` then evaluates the property with both sides computed from
the real code:

* if the command raised ``CommandError``: the snapshot must be unchanged;
* if the command reported success and changed anything: the signature it
  stored for the app must equal ``ProjectSignature.from_database()`` (the
  signature of the current models), and every current model must have its
  table (``db_get_installable_models_for_app`` must be empty).
"""

from __future__ import unicode_literals

import importlib
import itertools
import os
import shutil
import sys
import tempfile
from io import StringIO

from django.core.management import call_command
from django.core.management.base import CommandError
from django.db import connection
from django.test.utils import override_settings

from django_evolution.compat.apps import register_app_models
from django_evolution.compat.db import db_get_installable_models_for_app
from django_evolution.db.state import DatabaseState
from django_evolution.errors import EvolutionException
from django_evolution.evolve import Evolver
from django_evolution.models import Version
from django_evolution.signals import evolving
from django_evolution.signature import ProjectSignature
from django_evolution.tests import models as evo_test
from django_evolution.tests.base_test_case import (EvolutionTestCase,
                                                   MigrationsTestsMixin)
from django_evolution.tests.utils import (execute_test_sql,
                                          register_models)
from django_evolution.utils.apps import get_app_name
from django_evolution.utils.migrations import \
    clear_global_custom_migrations


_counter = itertools.count()


def normalize_model_sig(model_sig):
    """Return a clone with attributes set to their default removed."""
    model_sig = model_sig.clone()

    for field_sig in model_sig.field_sigs:
        for attr_name in list(field_sig.field_attrs):
            if field_sig.is_attr_value_default(attr_name):
                del field_sig.field_attrs[attr_name]

    return model_sig


class GateResult(object):
    def __init__(self):
        self.error = None
        self.stdout = ''
        self.stderr = ''
        self.before = None
        self.after = None
        self.target_sig = None
        self.stored_sig = None
        self.stored_sig_before = None
        self.missing_tables = None

        # Set when Evolver.evolve() was entered, i.e. when
        # Command._check_simulation() let the upgrade through.
        self.gate_passed = False

        # The signature a dry Evolver arrives at by simulating the pending
        # evolutions (Evolver.diff_evolutions()), or the error it raised.
        self.simulated_sig = None
        self.simulation_error = None

        # Set when the command died with something that is neither a
        # CommandError nor an EvolutionException.
        self.crash = None

    @property
    def rejected(self):
        return self.error is not None

    @property
    def touched(self):
        return self.before != self.after

    def describe_changes(self):
        lines = []
        b_schema, b_data = self.before
        a_schema, a_data = self.after

        for name in sorted(set(b_schema) | set(a_schema)):
            if b_schema.get(name) != a_schema.get(name):
                lines.append('schema %s:\n    before: %s\n    after:  %s'
                             % (name, b_schema.get(name), a_schema.get(name)))

        for name in sorted(set(b_data) | set(a_data)):
            if b_data.get(name) != a_data.get(name):
                lines.append('rows of %s changed (%s -> %s rows)'
                             % (name,
                                len(b_data.get(name) or []),
                                len(a_data.get(name) or [])))

        return '\n'.join(lines)


class GateTestCase(MigrationsTestsMixin, EvolutionTestCase):
    """Base class: install old models, then upgrade with an evolution."""

    def setUp(self):
        super(GateTestCase, self).setUp()

        self._tmp_dirs = []
        self._created_tables = set()

    def tearDown(self):
        # Drop whatever is left of the ``tests`` app tables.
        with connection.cursor() as cursor:
            cursor.execute("SELECT name FROM sqlite_master WHERE type='table'"
                           " AND (name LIKE 'tests\\_%' ESCAPE '\\'"
                           "      OR name LIKE 'hunt\\_%' ESCAPE '\\')")
            tables = [row[0] for row in cursor.fetchall()]

        if tables:
            execute_test_sql(['DROP TABLE "%s";' % table
                              for table in tables])

        for tmp_dir in self._tmp_dirs:
            if tmp_dir in sys.path:
                sys.path.remove(tmp_dir)

            shutil.rmtree(tmp_dir, ignore_errors=True)

        super(GateTestCase, self).tearDown()

    # ------------------------------------------------------------------
    def set_models(self, entries):
        """Make ``entries`` (list of (name, model)) THE models of 'tests'."""
        self._models_registered = True
        registered = register_models(
            database_state=DatabaseState('default'),
            models=list(entries),
            new_app_label='tests',
            db_name='default')
        register_app_models('tests', list(registered.items()), reset=True)

    def run_evolve(self, result=None):
        stdout = StringIO()
        stderr = StringIO()
        error = None

        def _on_evolving(**kwargs):
            if result is not None:
                result.gate_passed = True

        evolving.connect(_on_evolving)

        try:
            call_command('evolve', execute=True, interactive=False,
                         verbosity=1, stdout=stdout, stderr=stderr)
        except CommandError as e:
            error = e
        except Exception as e:
            # Not an evolution error: the command died with a raw Python
            # exception (the user would see a traceback).
            error = e

            if result is not None:
                result.crash = e
        finally:
            evolving.disconnect(_on_evolving)

        if error is not None:

            # NOTE (observation, not part of the property): when
            # prepare_tasks() raises, EvolveAppTask.prepare_tasks() never
            # reaches clear_global_custom_migrations(), so the next Evolver
            # in the same process dies on an AssertionError. Clean up here
            # so that one test cannot poison the next.
            clear_global_custom_migrations()

        return error, stdout.getvalue(), stderr.getvalue()

    def snapshot(self):
        schema = {}
        data = {}

        with connection.cursor() as cursor:
            cursor.execute('SELECT type, name, tbl_name, sql'
                           '  FROM sqlite_master')

            for row in cursor.fetchall():
                schema['%s %s' % (row[0], row[1])] = row

            cursor.execute("SELECT name FROM sqlite_master"
                           " WHERE type='table'")
            tables = [row[0] for row in cursor.fetchall()]

            for table in tables:
                if table == 'sqlite_sequence':
                    continue

                cursor.execute('SELECT * FROM "%s"' % table)
                data[table] = sorted(cursor.fetchall(), key=repr)

        return schema, data

    def install(self, entries):
        """Install the old models with the real command."""
        self.set_models(entries)
        error, stdout, stderr = self.run_evolve()
        assert error is None, 'baseline install failed: %s\n%s\n%s' % (
            error, stdout, stderr)

        stored = Version.objects.current_version().signature
        assert stored.get_app_sig('tests') is not None

    def write_evolutions(self, evolutions):
        """Write an evolutions package to disk and return its module name.

        ``evolutions`` is a list of ``(label, python_source)``.
        """
        tmp_dir = tempfile.mkdtemp(prefix='hunt_c12_')
        self._tmp_dirs.append(tmp_dir)
        module_name = 'hunt_c12_evolutions_%d' % next(_counter)
        pkg_dir = os.path.join(tmp_dir, module_name)
        os.mkdir(pkg_dir)

        with open(os.path.join(pkg_dir, '__init__.py'), 'w') as fp:
            fp.write('SEQUENCE = %r\n' % [str(label)
                                          for label, source in evolutions])

        for label, source in evolutions:
            with open(os.path.join(pkg_dir, '%s.py' % label), 'w') as fp:
                fp.write('from django.db import models\n'
                         'from django_evolution.mutations import *\n\n')
                fp.write(source)
                fp.write('\n')

        sys.path.insert(0, tmp_dir)
        importlib.invalidate_caches()

        return module_name

    def upgrade(self, entries, evolutions):
        """Switch to the new models and run evolve --execute --noinput."""
        self.set_models(entries)
        module_name = self.write_evolutions(evolutions)
        app_name = get_app_name(evo_test)

        result = GateResult()

        with override_settings(DJANGO_EVOLUTION={
                'CUSTOM_EVOLUTIONS': {app_name: module_name},
             }):
            result.target_sig = ProjectSignature.from_database('default')
            result.stored_sig_before = \
                Version.objects.current_version().signature

            # Dry run: simulate only (this is what the command itself does
            # in _check_simulation() before deciding).
            try:
                dry_evolver = Evolver(database_name='default')
                dry_evolver.queue_evolve_all_apps()
                dry_evolver.diff_evolutions()
                result.simulated_sig = dry_evolver.project_sig
            except Exception as e:
                result.simulation_error = e
                clear_global_custom_migrations()

            result.before = self.snapshot()
            result.error, result.stdout, result.stderr = \
                self.run_evolve(result)
            result.after = self.snapshot()

        result.stored_sig = Version.objects.current_version().signature
        result.missing_tables = [
            model._meta.db_table
            for model in db_get_installable_models_for_app(
                evo_test, db_state=DatabaseState('default'))
        ]

        return result

    def check_gate(self, result):
        """Evaluate the property on a result of upgrade()."""
        print()
        print('---- evolve stdout ----')
        print(result.stdout)
        print('---- evolve stderr ----')
        print(result.stderr)
        print('---- error: %r' % (result.error,))
        print('---- gate passed (Evolver.evolve() entered): %s'
              % result.gate_passed)
        print('---- database touched: %s' % result.touched)

        if result.touched:
            print(result.describe_changes())

        self.assertIsNone(
            result.crash,
            'evolve --execute did not reject the evolution with an '
            'evolution error (CommandError): it died with a raw %s: %s '
            '(database touched: %s)'
            % (type(result.crash).__name__, result.crash, result.touched))

        if not result.gate_passed:
            # Nothing may have been executed.
            self.assertFalse(
                result.touched,
                'evolve did not start the upgrade (%s) but the database '
                'changed:\n%s' % (result.error, result.describe_changes()))

            return

        # The gate let the upgrade through: the simulated signature (computed
        # by a dry Evolver before the run) has to be the signature of the
        # current models.
        self.assertIsNone(
            result.simulation_error,
            'the gate let the upgrade through although simulating it '
            'fails: %r' % (result.simulation_error,))

        target_app_sig = result.target_sig.get_app_sig('tests')
        simulated_app_sig = result.simulated_sig.get_app_sig('tests')

        self.assertIsNotNone(
            simulated_app_sig,
            'evolve --execute started an upgrade whose simulated signature '
            'no longer has the "tests" app (simulated apps: %s); database '
            'changes:\n%s'
            % ([app_sig.app_id for app_sig in result.simulated_sig.app_sigs],
               result.describe_changes()))

        # Compare the models only (ModelSignature.__eq__); the
        # upgrade_method of the app is allowed to differ, and a field
        # attribute that is spelled out with its default value is the same as
        # one that is left out.
        simulated_models = dict(
            (model_sig.model_name, normalize_model_sig(model_sig))
            for model_sig in simulated_app_sig.model_sigs)
        target_models = dict(
            (model_sig.model_name, normalize_model_sig(model_sig))
            for model_sig in target_app_sig.model_sigs)

        self.assertTrue(
            simulated_models == target_models,
            'evolve --execute started an upgrade although simulating the '
            'pending evolutions does NOT yield the signature of the '
            'current models.\n'
            'simulated: %r\ntarget:    %r\nerror: %r\n'
            'tables missing for current models afterwards: %s\n'
            'database changes:\n%s'
            % (simulated_app_sig.serialize()['models'],
               target_app_sig.serialize()['models'],
               result.error,
               result.missing_tables,
               result.describe_changes()))
