"""Control cases for the harness (these PASS): not a defect demonstration."""

from __future__ import unicode_literals

from django.db import models

from django_evolution.tests.models import BaseTestModel
from hunt_demo.gate_harness import GateTestCase


class ControlTests(GateTestCase):
    def _old(self):
        class OldModel(BaseTestModel):
            name = models.CharField(max_length=20)

        return OldModel

    def _new(self):
        class NewModel(BaseTestModel):
            name = models.CharField(max_length=20)
            added = models.IntegerField()

        return NewModel

    def test_valid(self):
        self.install([('TestModel', self._old())])
        result = self.upgrade(
            [('TestModel', self._new())],
            [('add_it', "MUTATIONS = [AddField('TestModel', 'added', "
                        "models.IntegerField, initial=1)]")])
        self.check_gate(result)
        self.assertFalse(result.rejected)
        self.assertTrue(result.touched)

    def test_no_initial(self):
        self.install([('TestModel', self._old())])
        result = self.upgrade(
            [('TestModel', self._new())],
            [('add_it', "MUTATIONS = [AddField('TestModel', 'added', "
                        "models.IntegerField)]")])
        self.check_gate(result)
        self.assertTrue(result.rejected)
        self.assertFalse(result.touched)

    def test_residual(self):
        self.install([('TestModel', self._old())])
        result = self.upgrade(
            [('TestModel', self._new())],
            [('add_it', "MUTATIONS = [AddField('TestModel', 'added', "
                        "models.IntegerField, initial=1, null=True)]")])
        self.check_gate(result)
        self.assertTrue(result.rejected)
        self.assertFalse(result.touched)

    def test_valid_rename_keeping_custom_table(self):
        class Person(BaseTestModel):
            name = models.CharField(max_length=20)

            class Meta(BaseTestModel.Meta):
                db_table = 'hunt_people'

        class Customer(BaseTestModel):
            name = models.CharField(max_length=20)

            class Meta(BaseTestModel.Meta):
                db_table = 'hunt_people'

        self.install([('Person', Person)])
        Person.objects.create(name='precious')
        result = self.upgrade(
            [('Customer', Customer)],
            [('rename', "MUTATIONS = [RenameModel('Person', 'Customer',"
                        " db_table='hunt_people')]")])
        self.check_gate(result)
        self.assertFalse(result.rejected)
        self.assertEqual(list(Customer.objects.values_list('name',
                                                           flat=True)),
                         ['precious'])
