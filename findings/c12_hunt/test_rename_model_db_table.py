"""Defect 2: the gate never compares the table name of a model.

``RenameModel.simulate()`` stores ``db_table`` in
``ModelSignature.table_name``, but ``ModelSignature.diff()`` does not look at
``table_name`` at all. A RenameModel whose ``db_table`` value was changed
(typo) simulates to a signature that differs from the current models, the
diff is empty, and the upgrade runs: the table is renamed to a name no model
uses, and the data is orphaned.

Both tests drive the real ``evolve --execute --noinput`` command and FAIL on
the unmodified code.
"""

from __future__ import unicode_literals

from django.db import models

from django_evolution.tests.models import BaseTestModel
from hunt_demo.gate_harness import GateTestCase


class RenameModelDbTableTests(GateTestCase):
    def test_custom_table_kept_but_mutation_says_otherwise(self):
        """The renamed model keeps its table (Meta.db_table). The valid
        evolution is RenameModel('Person', 'Customer',
        db_table='hunt_people'); the perturbed one says 'hunt_poeple'.
        """
        class Person(BaseTestModel):
            name = models.CharField(max_length=20)

            class Meta(BaseTestModel.Meta):
                db_table = 'hunt_people'

        class Customer(BaseTestModel):
            name = models.CharField(max_length=20)

            class Meta(BaseTestModel.Meta):
                db_table = 'hunt_people'

        self.install([('Person', Person)])
        Person.objects.create(name='precious')

        result = self.upgrade(
            [('Customer', Customer)],
            [('rename', "MUTATIONS = [RenameModel('Person', 'Customer',"
                        " db_table='hunt_poeple')]")])
        self.check_gate(result)

    def test_default_table_name_typo(self):
        """Default table names: tests_oldname -> tests_newname, typed as
        tests_newnmae. The run "succeeds": an empty tests_newname is created
        and the rows end up in tests_newnmae.
        """
        class OldName(BaseTestModel):
            name = models.CharField(max_length=20)

        class NewName(BaseTestModel):
            name = models.CharField(max_length=20)

        self.install([('OldName', OldName)])
        OldName.objects.create(name='precious')

        result = self.upgrade(
            [('NewName', NewName)],
            [('rename', "MUTATIONS = [RenameModel('OldName', 'NewName',"
                        " db_table='tests_newnmae')]")])
        self.check_gate(result)
