"""Observations (NOT defect demonstrations; these tests PASS and pin the
behaviour described in HUNT_NOTES.md, section "Observations").

Run with:
    /venv/bin/python -m pytest hunt_demo/observations.py \
        --rootdir=/tmp/hunt/c12 -c /tmp/hunt/c12/setup.cfg \
        -p no:cacheprovider -q -s
"""

from __future__ import unicode_literals

from django.core.management import call_command
from django.core.management.base import CommandError
from django.db import models

from django_evolution.tests.models import BaseTestModel
from django_evolution.utils import migrations as migration_utils
from hunt_demo.gate_harness import GateTestCase


class Observations(GateTestCase):
    def test_o1_sql_mutation_switches_the_gate_off(self):
        """One SQLMutation without update_func: no residual check at all
        (documented notice "Evolution could not be simulated"). The wrongly
        named column is added.
        """
        class M1(BaseTestModel):
            a = models.CharField(max_length=20)

        class M2(BaseTestModel):
            a = models.CharField(max_length=20)
            e = models.IntegerField(null=True)

        self.install([('TestModel', M1)])
        result = self.upgrade(
            [('TestModel', M2)],
            [('e1', "MUTATIONS = [SQLMutation('x', ['SELECT 1']),"
                    " AddField('TestModel', 'wrongname',"
                    " models.IntegerField, null=True)]")])

        self.assertTrue(result.gate_passed)
        self.assertIsNone(result.error)
        self.assertIn('could not be simulated', result.stdout)
        self.assertIn('"wrongname" integer NULL',
                      result.after[0]['table tests_testmodel'][3])

    def test_o2_mutations_naming_unknown_models_are_dropped(self):
        """get_app_pending_mutations() silently drops mutations whose model
        is unknown/unchanged: "names a missing model" is accepted, not
        rejected (the rest of the evolution reaches the target).
        """
        class M1(BaseTestModel):
            a = models.CharField(max_length=20)

        class M2(BaseTestModel):
            a = models.CharField(max_length=20)
            e = models.IntegerField(null=True)

        self.install([('TestModel', M1)])
        result = self.upgrade(
            [('TestModel', M2)],
            [('e1', "MUTATIONS = [AddField('TestModel', 'e',"
                    " models.IntegerField, null=True),"
                    " DeleteField('Ghost', 'x'),"
                    " AddField('Ghost2', 'y', models.IntegerField)]")])
        self.check_gate(result)
        self.assertTrue(result.gate_passed)
        self.assertIsNone(result.error)

    def test_o3_field_type_with_same_internal_type(self):
        """CharField(max_length=254) instead of EmailField: the diff treats
        the types as the same (get_internal_type), the stored signature says
        CharField while the model says EmailField. Same column type.
        """
        class M1(BaseTestModel):
            a = models.CharField(max_length=20)

        class M2(BaseTestModel):
            a = models.CharField(max_length=20)
            e = models.EmailField(null=True)

        self.install([('TestModel', M1)])
        result = self.upgrade(
            [('TestModel', M2)],
            [('e1', "MUTATIONS = [AddField('TestModel', 'e',"
                    " models.CharField, max_length=254, null=True)]")])

        self.assertTrue(result.gate_passed)
        self.assertIsNone(result.error)
        field_sig = (result.stored_sig.get_app_sig('tests')
                     .get_model_sig('TestModel').get_field_sig('e'))
        self.assertIs(field_sig.field_type, models.CharField)

    def test_o4_valid_rename_model_fails_in_sql_and_leaves_a_table(self):
        """A VALID RenameModel to the default table name: the renamed model
        has no table yet, so it is treated as a new model and created first;
        the rename then collides. The CREATE TABLE stays committed (each
        run_sql() call is its own transaction), signature/evolutions are
        not saved.
        """
        class OldName(BaseTestModel):
            name = models.CharField(max_length=20)

        class NewName(BaseTestModel):
            name = models.CharField(max_length=20)

        self.install([('OldName', OldName)])
        OldName.objects.create(name='x')
        result = self.upgrade(
            [('NewName', NewName)],
            [('rename', "MUTATIONS = [RenameModel('OldName', 'NewName',"
                        " db_table='tests_newname')]")])

        self.assertTrue(result.gate_passed)
        self.assertIsInstance(result.error, CommandError)
        self.assertIn('already another table', '%s' % result.error)
        self.assertTrue(result.touched)
        self.assertIn('table tests_newname', result.after[0])
        self.assertIn('table tests_oldname', result.after[0])

    def test_o5_rejection_leaks_global_custom_migrations(self):
        """After any rejection raised inside prepare_tasks(), the
        process-global custom migration list stays registered; a second
        Evolver in the same process dies with an AssertionError.
        """
        class M1(BaseTestModel):
            a = models.CharField(max_length=20)

        class M2(BaseTestModel):
            a = models.CharField(max_length=20)
            e = models.IntegerField()

        self.install([('TestModel', M1)])

        # Bypass the harness clean-up.
        cleared = []
        orig = migration_utils.clear_global_custom_migrations

        import hunt_demo.gate_harness as harness
        harness.clear_global_custom_migrations = lambda: cleared.append(1)

        try:
            result = self.upgrade(
                [('TestModel', M2)],
                [('e1', "MUTATIONS = [AddField('TestModel', 'e',"
                        " models.IntegerField)]")])
            self.assertFalse(result.gate_passed)
            self.assertIsNotNone(
                migration_utils._global_custom_migrations)
        finally:
            harness.clear_global_custom_migrations = orig
            orig()

    def test_o6_evolve_with_app_label_always_fails(self):
        """``if app_labels and self.execute`` tests the bound method
        BaseCommand.execute (always true) instead of options['execute'].
        """
        with self.assertRaises(CommandError) as ctx:
            call_command('evolve', 'evolutions_app', verbosity=0)

        self.assertIn('Cannot specify an application name',
                      '%s' % ctx.exception)
