"""Defect 4: an evolution that names a missing field is not rejected with an
evolution error by the evolve command: the command dies with a raw
AttributeError / FieldDoesNotExist traceback.

The friendly ``SimulationFailure`` ("The field could not be found in the
signature.") that the per-mutation unit tests assert comes from
``mutation.run_simulation()``. The command never gets there:
``BaseMutator.run_mutation()`` calls ``mutation.mutate()`` BEFORE
``run_simulation()``, and ``DeleteField.mutate()``, ``RenameField.mutate()``
and ``ChangeField.mutate()`` dereference the (missing) field signature
first. ``ChangeMeta`` never validates the field names at all, and dies in
the SQL generation.

Each test computes the expected rejection from the real code
(``run_simulation`` on a clone of the stored signature) and compares it with
what ``evolve --execute --noinput`` does. All FAIL on the unmodified code.
"""

from __future__ import unicode_literals

from django.core.management.base import CommandError
from django.db import models

from django_evolution.db.state import DatabaseState
from django_evolution.errors import SimulationFailure
from django_evolution.mutations import (ChangeField, ChangeMeta,
                                        DeleteField, RenameField)
from django_evolution.tests.models import BaseTestModel
from hunt_demo.gate_harness import GateTestCase


class MissingFieldRawExceptionTests(GateTestCase):
    def _run(self, mutation, mutation_source, new_fields):
        class Before(BaseTestModel):
            name = models.CharField(max_length=20)
            note = models.CharField(max_length=20, null=True)
            count = models.IntegerField(null=True)

        After = type(str('After'), (BaseTestModel,), dict(
            new_fields, __module__=Before.__module__))

        self.install([('TestModel', Before)])
        Before.objects.create(name='precious')

        result = self.upgrade([('TestModel', After)],
                              [('e1', 'MUTATIONS = [%s]' % mutation_source)])

        # What does the mutation's own simulation say (this is what the
        # existing per-mutation unit tests check)?
        expected_message = None

        if mutation is not None:
            try:
                mutation.run_simulation(
                    app_label='tests',
                    project_sig=result.stored_sig_before.clone(),
                    database_state=DatabaseState('default'),
                    database='default')
            except SimulationFailure as e:
                expected_message = '%s' % e

            self.assertIsNotNone(expected_message)
            print('run_simulation() says: %s' % expected_message)

        self.check_gate(result)

        self.assertFalse(result.gate_passed)
        self.assertFalse(result.touched)
        self.assertIsInstance(result.error, CommandError)

        if expected_message is not None:
            self.assertEqual('%s' % result.error, expected_message)

    def test_delete_field_name_changed(self):
        """Valid: DeleteField('TestModel', 'note'); perturbed: 'noet'."""
        self._run(
            DeleteField('TestModel', 'noet'),
            "DeleteField('TestModel', 'noet')",
            {
                'name': models.CharField(max_length=20),
                'count': models.IntegerField(null=True),
            })

    def test_change_field_name_changed(self):
        """Valid: ChangeField('TestModel', 'name', max_length=40)."""
        self._run(
            ChangeField('TestModel', 'nmae', max_length=40),
            "ChangeField('TestModel', 'nmae', max_length=40)",
            {
                'name': models.CharField(max_length=40),
                'note': models.CharField(max_length=20, null=True),
                'count': models.IntegerField(null=True),
            })

    def test_rename_field_name_changed(self):
        """Valid: RenameField('TestModel', 'count', 'total')."""
        self._run(
            RenameField('TestModel', 'cuont', 'total'),
            "RenameField('TestModel', 'cuont', 'total')",
            {
                'name': models.CharField(max_length=20),
                'note': models.CharField(max_length=20, null=True),
                'total': models.IntegerField(null=True),
            })

    def test_duplicated_delete_field(self):
        """A valid DeleteField duplicated: the second one names a field
        that is gone.
        """
        class Before(BaseTestModel):
            name = models.CharField(max_length=20)
            note = models.CharField(max_length=20, null=True)

        class After(BaseTestModel):
            name = models.CharField(max_length=20)

        self.install([('TestModel', Before)])

        result = self.upgrade(
            [('TestModel', After)],
            [('e1', "MUTATIONS = [DeleteField('TestModel', 'note'),"
                    " DeleteField('TestModel', 'note')]")])
        self.check_gate(result)
        self.assertFalse(result.gate_passed)
        self.assertIsInstance(result.error, CommandError)

    def test_change_meta_names_missing_field(self):
        """Valid: ChangeMeta(..., 'unique_together', [('name', 'count')]);
        perturbed: [('name', 'cuont')]. There is no simulation check at
        all; the command dies while generating SQL.
        """
        class Meta(BaseTestModel.Meta):
            unique_together = [('name', 'count')]

        self._run(
            None,
            "ChangeMeta('TestModel', 'unique_together',"
            " [('name', 'cuont')])",
            {
                'name': models.CharField(max_length=20),
                'note': models.CharField(max_length=20, null=True),
                'count': models.IntegerField(null=True),
                'Meta': Meta,
            })
