"""Defect 3: a ChangeField that changes the field type turns a nullable
column into a NOT NULL column without an initial value, and the gate lets it
through.

``ChangeField.simulate()`` replaces ALL attributes of the field with the ones
given in the mutation when the field type changes
(``field_sig.field_attrs = self.field_attrs.copy()``), which silently resets
``null=True`` to the default ``null=False``. The "non-null needs an initial
value" check that follows only looks at ``'null' in self.field_attrs``, so it
is skipped. The explicit spelling of the very same change
(``null=False`` without ``initial``) IS rejected.

The tests drive the real ``evolve --execute --noinput`` command.
``test_explicit_null_false_is_rejected`` is the control (passes); the other
tests FAIL on the unmodified code.
"""

from __future__ import unicode_literals

from django.db import models

from django_evolution.tests.models import BaseTestModel
from hunt_demo.gate_harness import GateTestCase


class ChangeTypeNonNullTests(GateTestCase):
    def _run(self, mutation, with_null_row, extra_new_model=False):
        class Before(BaseTestModel):
            value = models.CharField(max_length=20, null=True)

        class After(BaseTestModel):
            value = models.IntegerField()

        class Brand(BaseTestModel):
            name = models.CharField(max_length=20)

        self.install([('TestModel', Before)])
        Before.objects.create(value='5')

        if with_null_row:
            Before.objects.create(value=None)

        new_models = [('TestModel', After)]

        if extra_new_model:
            new_models.append(('Brand', Brand))

        result = self.upgrade(new_models,
                              [('e1', 'MUTATIONS = [%s]' % mutation)])
        self.check_gate(result)

        return result

    def _assert_changes_to_non_null(self, result):
        """The real simulation says: 'value' goes from null to non-null."""
        if result.simulated_sig is None:
            # The simulation itself refused the mutation (what we want).
            self.assertIsNotNone(result.simulation_error)
            self.assertFalse(result.gate_passed)
            return

        before_sig = (
            result.stored_sig_before
            .get_app_sig('tests')
            .get_model_sig('TestModel')
            .get_field_sig('value'))
        after_sig = (
            result.simulated_sig
            .get_app_sig('tests')
            .get_model_sig('TestModel')
            .get_field_sig('value'))

        self.assertTrue(before_sig.get_attr_value('null'))
        self.assertFalse(after_sig.get_attr_value('null'))

    def test_explicit_null_false_is_rejected(self):
        """Control: null=False spelled out, no initial -> rejected."""
        result = self._run(
            "ChangeField('TestModel', 'value',"
            " field_type=models.IntegerField, null=False)",
            with_null_row=True)

        self.assertFalse(result.gate_passed)
        self.assertIn('A non-null initial value needs to be specified',
                      '%s' % result.error)

    def test_implicit_non_null_passes_the_gate(self):
        """Same change, null left out (the type change resets it): no
        initial value, yet the upgrade is executed and the column silently
        becomes NOT NULL.
        """
        result = self._run(
            "ChangeField('TestModel', 'value',"
            " field_type=models.IntegerField)",
            with_null_row=False)

        self._assert_changes_to_non_null(result)
        self.assertFalse(
            result.gate_passed,
            'A ChangeField that makes the nullable column "value" NOT NULL '
            'without an initial value was executed instead of being '
            'rejected:\n%s' % result.describe_changes())

    def test_implicit_non_null_fails_in_sql_after_creating_models(self):
        """With a NULL row present, the same evolution dies in the middle of
        the run with a raw database error (not an evolution error "before
        any SQL runs"), after the table of a new model has already been
        created and committed: the database was touched, the stored
        signature and the evolution records were not.
        """
        result = self._run(
            "ChangeField('TestModel', 'value',"
            " field_type=models.IntegerField)",
            with_null_row=True,
            extra_new_model=True)

        self._assert_changes_to_non_null(result)
        self.assertFalse(
            result.gate_passed,
            'A ChangeField that makes the nullable column "value" NOT NULL '
            'without an initial value was executed instead of being '
            'rejected. Outcome: %r; database touched: %s\n%s'
            % (result.error, result.touched, result.describe_changes()))
