"""Defect 1: models/apps that the simulation REMOVES are invisible to the gate.

``Command._check_simulation()`` accepts an upgrade when
``Diff(simulated_sig, target_sig).is_empty()``. The diff only walks the apps
and models of the *simulated* signature (``ProjectSignature.diff`` /
``AppSignature.diff`` iterate ``old_*_sig`` only), so an app or model that is
defined by the current models but is missing from the simulated signature
produces no diff entry. Any evolution whose simulation deletes a live model
(or moves the whole app away) therefore passes the gate, and its SQL runs.

Every test drives the real ``evolve --execute --noinput`` command (see
gate_harness.py) and FAILS on the unmodified code.
"""

from __future__ import unicode_literals

from django.db import models

from django_evolution.tests.models import BaseTestModel
from hunt_demo.gate_harness import GateTestCase


class LostModelInvisibleTests(GateTestCase):
    def test_history_model_deleted_then_readded(self):
        """A valid history: DeleteModel('Foo') was written when Foo was
        removed; later a different Foo was added back to models.py. A database
        that still has the old Foo and has not applied the evolution yet
        simulates to "no Foo", the current models have a Foo: not equal, but
        the upgrade runs, reports success and leaves Foo without a table.
        """
        class OldFoo(BaseTestModel):
            name = models.CharField(max_length=20)

        class NewFoo(BaseTestModel):
            title = models.CharField(max_length=50)
            count = models.IntegerField(default=0)

        self.install([('Foo', OldFoo)])
        OldFoo.objects.create(name='precious')

        result = self.upgrade(
            [('Foo', NewFoo)],
            [('delete_foo', "MUTATIONS = [DeleteModel('Foo')]")])
        self.check_gate(result)

    def test_extra_delete_model_of_live_model(self):
        """A valid evolution (AddField) with one extra mutation that leaves a
        residual difference as big as a whole model: DeleteModel of a model
        that the current models still define.
        """
        class Keep(BaseTestModel):
            name = models.CharField(max_length=20)

        class Keep2(BaseTestModel):
            name = models.CharField(max_length=20)
            extra = models.IntegerField(null=True)

        self.install([('Keep', Keep)])
        Keep.objects.create(name='precious')

        result = self.upgrade(
            [('Keep', Keep2)],
            [('e1', "MUTATIONS = [\n"
                    "    AddField('Keep', 'extra', models.IntegerField,"
                    " null=True),\n"
                    "    DeleteModel('Keep'),\n"
                    "]")])
        self.check_gate(result)

    def test_delete_application_in_live_app(self):
        """Same, with DeleteApplication(): every table of the app is dropped.
        """
        class Keep(BaseTestModel):
            name = models.CharField(max_length=20)

        class Other(BaseTestModel):
            value = models.IntegerField()

        class Keep2(BaseTestModel):
            name = models.CharField(max_length=20)
            extra = models.IntegerField(null=True)

        self.install([('Keep', Keep), ('Other', Other)])
        Keep.objects.create(name='precious')
        Other.objects.create(value=1)

        result = self.upgrade(
            [('Keep', Keep2), ('Other', Other)],
            [('e1', "MUTATIONS = [\n"
                    "    AddField('Keep', 'extra', models.IntegerField,"
                    " null=True),\n"
                    "    DeleteApplication(),\n"
                    "]")])
        self.check_gate(result)

    def test_rename_app_label_to_wrong_label(self):
        """App level: RenameAppLabel with a changed (wrong) new label moves
        the whole app signature to 'testz'. The current 'tests' app is then
        missing from the simulated signature (not reported), and 'testz' is a
        "deleted app", which the gate ignores without --purge.
        """
        class Keep(BaseTestModel):
            name = models.CharField(max_length=20)

        self.install([('Keep', Keep)])

        result = self.upgrade(
            [('Keep', Keep)],
            [('e1', "MUTATIONS = [RenameAppLabel('tests', 'testz')]")])
        self.check_gate(result)
