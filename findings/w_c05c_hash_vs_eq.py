"""F-C05c witness: ConstraintSignature / IndexSignature hash through
repr(self), which prints the attrs dict in key order (and name / expressions
verbatim), while __eq__ deliberately ignores key order (dict.__eq__) and
treats empty names/expressions as equal.  Two signatures that are == can
therefore hash differently; ModelSignature.__eq__ compares them through
set(...), so two model signatures whose difference is empty in both
directions compare unequal."""
import _boot  # noqa
from django.db import models
from django.db.models import Q
from django_evolution.signature import IndexSignature, ModelSignature

i = models.Index(fields=['a'], name='w_i', condition=Q(a__gt=1),
                 opclasses=['x'])
sig1 = IndexSignature.from_index(i)            # attrs: opclasses, condition
# the same index as a hinted evolution file spells it (keys sorted by
# DictSerialization.serialize_to_python) and ChangeMeta.simulate rebuilds it
sig2 = IndexSignature(name='w_i', fields=['a'],
                      attrs={'condition': Q(a__gt=1), 'opclasses': ['x']})
print('index ==   :', sig1 == sig2)
print('hash equal :', hash(sig1) == hash(sig2))
m1 = ModelSignature(model_name='M', table_name='t')
m1.add_index_sig(sig1)
m2 = ModelSignature(model_name='M', table_name='t')
m2.add_index_sig(sig2)
print('diff m1->m2:', dict(m1.diff(m2)), ' diff m2->m1:', dict(m2.diff(m1)))
print('models ==  :', m1 == m2)
assert sig1 == sig2 and hash(sig1) == hash(sig2)
assert m1 == m2, 'empty difference in both directions but not equal'
