import random, sys
from _explib import *

def gen_app(rng, model, fk=None):
    # fields: name -> (type, attrs dict)
    fields = {}
    order = []
    def src(fields, order, meta):
        lines = ['class %s(models.Model):' % model]
        for n in order:
            t, a = fields[n]
            args = ', '.join('%s=%r' % kv for kv in sorted(a.items()))
            if t == 'ForeignKey':
                lines.append("    %s = models.ForeignKey(%r, on_delete=models.CASCADE%s)" % (n, fk, (', ' + args) if args else ''))
            else:
                lines.append('    %s = models.%s(%s)' % (n, t, args))
        if not order:
            lines.append('    pass')
        if meta.get('unique_together') or meta.get('index_together'):
            lines.append('    class Meta:')
            for k in ('unique_together', 'index_together'):
                if meta.get(k):
                    lines.append('        %s = %r' % (k, meta[k]))
        return '\n'.join(lines)
    def newfield(n):
        t = rng.choice(['IntegerField', 'CharField', 'BooleanField'])
        a = {}
        if t == 'CharField': a['max_length'] = rng.choice([5, 10, 20])
        if rng.random() < 0.3 and t != 'BooleanField': a['db_index'] = True
        if rng.random() < 0.2 and t != 'BooleanField': a['unique'] = True
        return t, a
    for n in 'abc':
        fields[n] = newfield(n); order.append(n)
        if rng.random() < 0.3: fields[n][1]['null'] = True
    if fk:
        fields['ref'] = ('ForeignKey', {}); order.append('ref')
    meta = {}
    if rng.random() < 0.5: meta['unique_together'] = [('a', 'b')]
    if rng.random() < 0.5: meta['index_together'] = [('b', 'c')]
    v1 = src(fields, order, meta)
    evolutions = []
    counter = [0]
    for ei in range(rng.choice([1, 2, 3])):
        muts = []
        for mi in range(rng.choice([1, 2, 3, 4])):
            op = rng.choice(['add', 'add', 'delete', 'change', 'change', 'rename', 'meta'])
            plain = [n for n in order if fields[n][0] != 'ForeignKey']
            if op == 'add':
                counter[0] += 1
                n = 'f%d' % counter[0]
                t, a = newfield(n)
                init = {'IntegerField': rng.choice([0, 7]), 'CharField': rng.choice(['', 'xy']), 'BooleanField': rng.choice([False, True])}[t]
                if rng.random() < 0.3:
                    a['null'] = True
                    muts.append("AddField(%r, %r, models.%s, %s)" % (model, n, t, ', '.join('%s=%r' % kv for kv in sorted(a.items()))))
                else:
                    muts.append("AddField(%r, %r, models.%s, initial=%r%s)" % (model, n, t, init, ''.join(', %s=%r' % kv for kv in sorted(a.items()))))
                fields[n] = (t, a); order.append(n)
            elif op == 'delete' and len(plain) > 1:
                n = rng.choice(plain)
                used = [x for k in meta for tup in meta[k] for x in tup]
                if n in used: continue
                muts.append("DeleteField(%r, %r)" % (model, n))
                del fields[n]; order.remove(n)
            elif op == 'change' and plain:
                n = rng.choice(plain)
                t, a = fields[n]
                what = rng.choice(['null', 'db_index', 'unique', 'max_length'])
                if what == 'max_length' and t == 'CharField':
                    a['max_length'] = a['max_length'] + 5
                    muts.append("ChangeField(%r, %r, max_length=%d)" % (model, n, a['max_length']))
                elif what == 'null':
                    new = not a.get('null', False)
                    if new:
                        a['null'] = True
                        muts.append("ChangeField(%r, %r, null=True)" % (model, n))
                    else:
                        a.pop('null')
                        init = {'IntegerField': 1, 'CharField': 'q', 'BooleanField': False}[t]
                        muts.append("ChangeField(%r, %r, null=False, initial=%r)" % (model, n, init))
                elif what == 'db_index' and t != 'BooleanField':
                    new = not a.get('db_index', False)
                    if new: a['db_index'] = True
                    else: a.pop('db_index')
                    muts.append("ChangeField(%r, %r, db_index=%r)" % (model, n, new))
                elif what == 'unique' and t != 'BooleanField':
                    new = not a.get('unique', False)
                    if new: a['unique'] = True
                    else: a.pop('unique')
                    muts.append("ChangeField(%r, %r, unique=%r)" % (model, n, new))
            elif op == 'rename' and plain:
                n = rng.choice(plain)
                used = [x for k in meta for tup in meta[k] for x in tup]
                if n in used: continue
                counter[0] += 1
                nn = 'r%d' % counter[0]
                muts.append("RenameField(%r, %r, %r)" % (model, n, nn))
                fields[nn] = fields.pop(n); order[order.index(n)] = nn
            elif op == 'meta' and len(plain) >= 2:
                k = rng.choice(['unique_together', 'index_together'])
                if rng.random() < 0.3:
                    meta[k] = []
                else:
                    meta[k] = [tuple(rng.sample(plain, 2))]
                muts.append("ChangeMeta(%r, %r, %r)" % (model, k, meta[k]))
        if muts:
            evolutions.append(('e%d' % ei, 'MUTATIONS = [\n    ' + ',\n    '.join(muts) + '\n]\n'))
    v2 = src(fields, order, meta)
    return {'v1': v1, 'v2': v2, 'evolutions': evolutions}

start = int(sys.argv[1]); n = int(sys.argv[2])
for i in range(start, start + n):
    rng = random.Random(i)
    apps = [('app1', gen_app(rng, 'A')), ('app2', gen_app(rng, 'B', fk='app1.A'))]
    print('=== case', i)
    try:
        compare(apps, seeds=('0', '7'))
    except Exception as e:
        print('HARNESS ERROR', e)
        for name, spec in apps:
            print(spec['v1']); print(spec['v2']); print(spec['evolutions'])
