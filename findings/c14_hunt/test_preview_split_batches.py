"""The preview optimises all of an app's evolutions together; execution
optimises them per batch.

Property: the statements reported by ``evolve --sql`` are, in order, the
statements that ``evolve --execute`` issues for the same evolutions.

History: app1 has two pending evolutions. ``a1`` must run before the
migration ``mig.0002_add`` (``BEFORE_MIGRATIONS``) and ``a2`` after it
(``AFTER_MIGRATIONS``), so the execution has three batches: evolutions [a1],
migrations [0002_add], evolutions [a2]. ``a1`` sets max_length=20 and adds a
column, ``a2`` sets max_length=30 and deletes that column again.

* Execution rebuilds app1_a twice (once per batch).
* ``evolve --sql`` prints ``task.sql`` from ``EvolveAppTask.prepare()``, where
  both evolutions were optimised as one sequence: a single rebuild, no ``tmp``
  column ever.

(The SQL of the migration itself is not part of the preview; it is left out of
the comparison.)
"""
from __future__ import unicode_literals

import os
import sys

sys.path.insert(0, os.path.dirname(os.path.abspath(__file__)))

from django_evolution.tests.base_test_case import EvolutionTestCase

from _harness import Project, executed_statements, preview_statements


INITIAL_MIGRATION = ('0001_initial', '''
    class Migration(migrations.Migration):
        initial = True
        dependencies = []
        operations = [
            migrations.CreateModel(name='M', fields=[
                ('id', models.AutoField(primary_key=True, serialize=False,
                                        auto_created=True,
                                        verbose_name='ID')),
                ('n', models.IntegerField(default=0)),
            ]),
        ]
''')

SECOND_MIGRATION = ('0002_add', '''
    class Migration(migrations.Migration):
        dependencies = [('mig', '0001_initial')]
        operations = [
            migrations.AddField(model_name='m', name='k',
                                field=models.IntegerField(default=1)),
        ]
''')

APPS = [
    ('app1', {
        'v1': '''
            class A(models.Model):
                name = models.CharField(max_length=10)
        ''',
        'v2': '''
            class A(models.Model):
                name = models.CharField(max_length=30)
        ''',
        'evolutions': [
            ('a1', '''
                BEFORE_MIGRATIONS = [('mig', '0002_add')]
                MUTATIONS = [
                    ChangeField('A', 'name', max_length=20),
                    AddField('A', 'tmp', models.IntegerField, null=True),
                ]
            '''),
            ('a2', '''
                AFTER_MIGRATIONS = [('mig', '0002_add')]
                MUTATIONS = [
                    ChangeField('A', 'name', max_length=30),
                    DeleteField('A', 'tmp'),
                ]
            '''),
        ],
    }),
    ('mig', {
        'v1': '''
            class M(models.Model):
                n = models.IntegerField(default=0)
        ''',
        'v2': '''
            class M(models.Model):
                n = models.IntegerField(default=0)
                k = models.IntegerField(default=1)
        ''',
        'migrations': {
            'v1': [INITIAL_MIGRATION],
            'v2': [INITIAL_MIGRATION, SECOND_MIGRATION],
        },
    }),
]


class PreviewSplitBatchesTests(EvolutionTestCase):
    def setUp(self):
        super(PreviewSplitBatchesTests, self).setUp()

        self.project = Project(APPS)
        self.project.install_baseline()

    def tearDown(self):
        self.project.cleanup()

        super(PreviewSplitBatchesTests, self).tearDown()

    def test_preview_equals_execution(self):
        """Testing evolve --sql for evolutions split around a migration"""
        preview = self.project.preview()
        execution = self.project.execute()

        self.assertIsNone(preview['error'], preview['error'])
        self.assertIsNone(execution['error'], execution['error'])

        # Leave out what the Django migration executed on its own table.
        executed = [
            statement
            for statement in executed_statements(execution['statements'])
            if 'mig_m' not in statement
        ]

        self.assertEqual(preview_statements(preview['stdout']), executed)
