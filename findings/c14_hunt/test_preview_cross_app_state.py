"""The preview of a second app ignores what the first app's evolutions did.

Property: the statements reported by ``evolve --sql`` are, in order, the
statements that ``evolve --execute`` issues for the same evolutions on the
same database.

History (two apps, one run):

* app1 renames A's primary key field ``code`` to ``key``;
* app2.B (which has a ForeignKey to app1.A) makes ``n`` nullable, which
  rebuilds the app2_b table on SQLite.

``EvolveAppTask.prepare()`` computes ``task.sql`` (what ``evolve --sql``
prints) for every task against a clone of the *stored* signature, so app2's
rebuild says ``REFERENCES "app1_a" ("code")``. The SQL that is executed is
computed in ``_build_batches()`` against the evolver's signature, which has
already been advanced by app1's mutations, and says
``REFERENCES "app1_a" ("key")``.

The preview (management command) and the execution
(``connection.execute_wrapper``) are run by the real code, in separate
processes, for two hash seeds.
"""
from __future__ import unicode_literals

import os
import sys

sys.path.insert(0, os.path.dirname(os.path.abspath(__file__)))

from django_evolution.tests.base_test_case import EvolutionTestCase

from _harness import Project, executed_statements, preview_statements


APPS = [
    ('app1', {
        'v1': '''
            class A(models.Model):
                code = models.AutoField(primary_key=True)
                name = models.CharField(max_length=10)
        ''',
        'v2': '''
            class A(models.Model):
                key = models.AutoField(primary_key=True)
                name = models.CharField(max_length=10)
        ''',
        'evolutions': [
            ('rename_pk', '''
                MUTATIONS = [
                    RenameField('A', 'code', 'key'),
                ]
            '''),
        ],
    }),
    ('app2', {
        'v1': '''
            class B(models.Model):
                ref = models.ForeignKey('app1.A', on_delete=models.CASCADE)
                n = models.IntegerField(default=0)
        ''',
        'v2': '''
            class B(models.Model):
                ref = models.ForeignKey('app1.A', on_delete=models.CASCADE)
                n = models.IntegerField(default=0, null=True)
        ''',
        'evolutions': [
            ('n_null', '''
                MUTATIONS = [
                    ChangeField('B', 'n', null=True),
                ]
            '''),
        ],
    }),
]


class PreviewCrossAppStateTests(EvolutionTestCase):
    def setUp(self):
        super(PreviewCrossAppStateTests, self).setUp()

        self.project = Project(APPS)
        self.project.install_baseline()

    def tearDown(self):
        self.project.cleanup()

        super(PreviewCrossAppStateTests, self).tearDown()

    def test_preview_equals_execution(self):
        """Testing evolve --sql for an app evolved after another app"""
        for seed in ('0', '1'):
            preview = self.project.preview(seed=seed)
            execution = self.project.execute(seed=seed)

            self.assertIsNone(preview['error'], preview['error'])
            self.assertIsNone(execution['error'], execution['error'])

            self.assertEqual(preview_statements(preview['stdout']),
                             executed_statements(execution['statements']))
