"""Driver run in a SEPARATE PROCESS by the hunt_demo tests.

Usage:
    python _driver.py <project_dir> <db_file> sql|execute|hint_sql|hint_execute

``sql``      runs the real ``evolve --sql`` management command and prints a
             JSON document ``{"stdout": ..., "stderr": ..., "error": ...}``.
``execute``  runs the real ``evolve --execute --noinput`` management command
             with a ``connection.execute_wrapper`` installed and prints a JSON
             document holding every statement sent to the database
             (``[sql, params]``), in order.

Nothing here touches django_evolution internals: it only bootstraps Django
with a generated settings module and calls the management command.
"""
from __future__ import print_function, unicode_literals

import datetime
import decimal
import io
import json
import os
import sys


def main():
    project_dir, db_file, mode = sys.argv[1:4]
    extra = sys.argv[4:]

    sys.path.insert(0, '/tmp/hunt/c14')
    sys.path.insert(0, project_dir)
    os.chdir(project_dir)
    os.environ['DJANGO_SETTINGS_MODULE'] = 'hunt_settings'
    os.environ['HUNT_DB_FILE'] = db_file

    import django
    django.setup()

    from django.core.management import call_command
    from django.core.management.base import CommandError
    from django.db import connections

    stdout = io.StringIO()
    stderr = io.StringIO()
    result = {'error': None}
    database = 'default'

    for arg in extra:
        if arg.startswith('--database='):
            database = arg.split('=', 1)[1]

    kwargs = {'stdout': stdout, 'stderr': stderr, 'verbosity': 1,
              'database': database}

    if mode.startswith('hint_'):
        kwargs['hint'] = True
        mode = mode[len('hint_'):]

    if '--purge' in extra:
        kwargs['purge'] = True

    app_args = [arg[len('--app='):] for arg in extra
                if arg.startswith('--app=')]

    statements = []

    def _jsonable(value):
        if isinstance(value, (datetime.date, datetime.datetime,
                              datetime.time)):
            return {'__type__': type(value).__name__,
                    'value': value.isoformat()}
        elif isinstance(value, decimal.Decimal):
            return {'__type__': 'Decimal', 'value': str(value)}
        elif isinstance(value, bytes):
            return {'__type__': 'bytes', 'value': value.decode('latin1')}

        return value

    def wrapper(execute, sql, params, many, context):
        statements.append([
            sql,
            None if params is None else [_jsonable(p) for p in params],
        ])

        return execute(sql, params, many, context)

    try:
        if mode == 'sql':
            call_command('evolve', *app_args, compile_sql=True, **kwargs)
        elif mode == 'to_v1':
            import pickle
            from django.db import connection as conn
            from django_evolution.models import Version
            version = Version.objects.current_version()
            data = version.signature.serialize(sig_version=1)
            payload = pickle.dumps(data, protocol=0).decode('latin1')
            with conn.cursor() as cursor:
                cursor.execute('UPDATE django_project_version SET signature=%s'
                               ' WHERE id=%s', [payload, version.pk])
        elif mode == 'text':
            call_command('evolve', **kwargs)
        elif mode == 'execute':
            connection = connections[database]

            with connection.execute_wrapper(wrapper):
                call_command('evolve', execute=True, interactive=False,
                             **kwargs)
        else:
            raise ValueError(mode)
    except CommandError as e:
        result['error'] = 'CommandError: %s' % e
    except Exception as e:
        import traceback
        result['error'] = traceback.format_exc()

    result['stdout'] = stdout.getvalue()
    result['stderr'] = stderr.getvalue()
    result['statements'] = statements

    print('@@@HUNT_JSON@@@')
    print(json.dumps(result))


if __name__ == '__main__':
    main()
