"""The preview lists the apps in queue order, not in execution order.

Property: the statements reported by ``evolve --sql`` are, IN ORDER, the
statements that ``evolve --execute`` issues.

History (two apps, one run): app1 and app2 each have one pending evolution,
and app1's ``evolutions/__init__.py`` declares
``AFTER_EVOLUTIONS = ['app2']`` (a documented dependency).

Execution follows the dependency graph (``_build_batches``): app2's table is
rebuilt first, then app1's. ``evolve --sql`` iterates ``evolver.tasks`` (the
order in which the apps were queued) and prints app1 first.
"""
from __future__ import unicode_literals

import os
import sys

sys.path.insert(0, os.path.dirname(os.path.abspath(__file__)))

from django_evolution.tests.base_test_case import EvolutionTestCase

from _harness import Project, executed_statements, preview_statements


APPS = [
    ('app1', {
        'v1': '''
            class A(models.Model):
                name = models.CharField(max_length=10)
        ''',
        'v2': '''
            class A(models.Model):
                name = models.CharField(max_length=20)
        ''',
        'evolutions_init': '''
            AFTER_EVOLUTIONS = ['app2']
        ''',
        'evolutions': [
            ('a1', '''
                MUTATIONS = [
                    ChangeField('A', 'name', max_length=20),
                ]
            '''),
        ],
    }),
    ('app2', {
        'v1': '''
            class B(models.Model):
                n = models.IntegerField(default=0)
        ''',
        'v2': '''
            class B(models.Model):
                n = models.IntegerField(default=0, null=True)
        ''',
        'evolutions': [
            ('b1', '''
                MUTATIONS = [
                    ChangeField('B', 'n', null=True),
                ]
            '''),
        ],
    }),
]


class PreviewOrderTests(EvolutionTestCase):
    def setUp(self):
        super(PreviewOrderTests, self).setUp()

        self.project = Project(APPS)
        self.project.install_baseline()

    def tearDown(self):
        self.project.cleanup()

        super(PreviewOrderTests, self).tearDown()

    def test_preview_equals_execution(self):
        """Testing evolve --sql order with a dependency between two apps"""
        preview = self.project.preview()
        execution = self.project.execute()

        self.assertIsNone(preview['error'], preview['error'])
        self.assertIsNone(execution['error'], execution['error'])

        previewed = preview_statements(preview['stdout'])
        executed = executed_statements(execution['statements'])

        # Same statements...
        self.assertEqual(sorted(previewed), sorted(executed))

        # ... and in the same order.
        self.assertEqual(previewed, executed)
