"""The SQL preview renders bound parameters into something else than what runs.

Property: the statements reported by ``evolve --sql`` are, with parameters
substituted, the statements that ``evolve --execute`` issues.

History: app1.A gains ``when = DateField`` (initial ``date(2020, 1, 2)``) and
``nick = CharField`` (initial ``"O'Brien"``) through AddField mutations.

* Execution binds the parameters: the rows get ``'2020-01-02'`` and
  ``O'Brien``.
* The preview prints ``SELECT "id", "name", 2020-01-02, 'O\\'Brien' FROM ...``:
  the date is an unquoted arithmetic expression (2020 - 1 - 2 = 2017) and the
  string uses a backslash escape that SQLite (and PostgreSQL) do not have.

Both sides are computed by the real code, in separate processes: the preview
through the management command, the execution through
``connection.execute_wrapper``. The executed parameters are rendered with
SQLite's own ``quote()`` function, and the previewed script is also replayed
on a copy of the same database.
"""
from __future__ import unicode_literals

import os
import sys

sys.path.insert(0, os.path.dirname(os.path.abspath(__file__)))

from django_evolution.tests.base_test_case import EvolutionTestCase

from _harness import (Project, apply_preview_to_copy, dump_db,
                      executed_statements, preview_statements)


APPS = [
    ('app1', {
        'v1': '''
            class A(models.Model):
                name = models.CharField(max_length=10)
        ''',
        'v2': '''
            import datetime

            class A(models.Model):
                name = models.CharField(max_length=10)
                when = models.DateField(default=datetime.date(2020, 1, 2))
                nick = models.CharField(max_length=20, default="O'Brien")
        ''',
        'evolutions': [
            ('add_fields', '''
                MUTATIONS = [
                    AddField('A', 'when', models.DateField,
                             initial=datetime.date(2020, 1, 2)),
                    AddField('A', 'nick', models.CharField, max_length=20,
                             initial="O'Brien"),
                ]
            '''),
        ],
    }),
]


class PreviewParamQuotingTests(EvolutionTestCase):
    def setUp(self):
        super(PreviewParamQuotingTests, self).setUp()

        self.project = Project(APPS)
        self.project.install_baseline(data_sql=[
            "INSERT INTO app1_a (name) VALUES ('x')",
        ])

    def tearDown(self):
        self.project.cleanup()

        super(PreviewParamQuotingTests, self).tearDown()

    def test_preview_statements_equal_executed_statements(self):
        """Testing evolve --sql renders parameters the way they are bound"""
        preview = self.project.preview()
        execution = self.project.execute()

        self.assertIsNone(preview['error'], preview['error'])
        self.assertIsNone(execution['error'], execution['error'])

        self.assertEqual(preview_statements(preview['stdout']),
                         executed_statements(execution['statements']))

    def test_replaying_preview_gives_executed_database(self):
        """Testing the evolve --sql script produces the executed database"""
        preview = self.project.preview()
        execution = self.project.execute()

        self.assertIsNone(preview['error'], preview['error'])
        self.assertIsNone(execution['error'], execution['error'])

        replay_db, replay_error = apply_preview_to_copy(
            self.project, preview_statements(preview['stdout']))

        self.assertIsNone(replay_error, replay_error)
        self.assertEqual(dump_db(replay_db), dump_db(execution['db']))
