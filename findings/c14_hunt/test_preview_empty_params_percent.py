"""A statement with an EMPTY parameter tuple is %-formatted when executed,
but printed verbatim by the preview.

Property: the statements reported by ``evolve --sql`` are, with parameters
substituted, the statements that ``evolve --execute`` issues.

History: app1.A gains
``CheckConstraint(check=Q(name__contains='sale'), name='c1')`` through a
ChangeMeta mutation, which rebuilds the table on SQLite.

The rebuild emits ``('CREATE TABLE "TEMP_TABLE" (... CHECK ("name" LIKE
'%sale%' ESCAPE '\\')));', ())`` - a statement with an empty params tuple.

* ``SQLExecutor.run_sql(capture=True)`` (the preview) tests ``if params:``,
  finds the tuple empty and prints the statement as it is: ``LIKE '%sale%'``.
* ``SQLExecutor.run_sql(execute=True)`` passes ``()`` (not ``None``) to
  ``cursor.execute()``, so the statement goes through the driver's "format"
  parameter style: the ``%s`` inside the string literal is taken for a
  placeholder and the database ends up with ``LIKE '?ale%'``.

So what is executed is not what was previewed: replaying the previewed script
on a copy of the database gives a different schema from the one left by
``evolve --execute``. Both are produced by the real code in separate
processes.
"""
from __future__ import unicode_literals

import os
import sys

sys.path.insert(0, os.path.dirname(os.path.abspath(__file__)))

from django_evolution.tests.base_test_case import EvolutionTestCase

from _harness import (Project, apply_preview_to_copy, dump_db,
                      preview_statements)


APPS = [
    ('app1', {
        'v1': '''
            class A(models.Model):
                name = models.CharField(max_length=10)
        ''',
        'v2': '''
            class A(models.Model):
                name = models.CharField(max_length=10)

                class Meta:
                    constraints = [
                        models.CheckConstraint(
                            check=models.Q(name__contains='sale'),
                            name='c1'),
                    ]
        ''',
        'evolutions': [
            ('add_check', '''
                MUTATIONS = [
                    ChangeMeta('A', 'constraints', [
                        {
                            'type': models.CheckConstraint,
                            'name': 'c1',
                            'check': models.Q(name__contains='sale'),
                        },
                    ]),
                ]
            '''),
        ],
    }),
]


class PreviewEmptyParamsPercentTests(EvolutionTestCase):
    def _make_project(self, data_sql=()):
        project = Project(APPS)
        self.addCleanup(project.cleanup)
        project.install_baseline(data_sql=data_sql)

        return project

    def test_replaying_preview_gives_executed_schema(self):
        """Testing the evolve --sql script produces the executed schema"""
        project = self._make_project()
        preview = project.preview()
        execution = project.execute()

        self.assertIsNone(preview['error'], preview['error'])
        self.assertIsNone(execution['error'], execution['error'])

        replay_db, replay_error = apply_preview_to_copy(
            project, preview_statements(preview['stdout']))
        self.assertIsNone(replay_error, replay_error)

        replayed_schema, replayed_rows = dump_db(replay_db)
        executed_schema, executed_rows = dump_db(execution['db'])

        self.assertEqual(replayed_schema, executed_schema)
        self.assertEqual(replayed_rows, executed_rows)

    def test_execution_succeeds_when_previewed_script_succeeds(self):
        """Testing evolve --execute with a row satisfying the previewed
        constraint
        """
        # 'wholesale' satisfies LIKE '%sale%', the constraint in the model
        # and in the preview.
        project = self._make_project(data_sql=[
            "INSERT INTO app1_a (name) VALUES ('wholesale')",
        ])
        preview = project.preview()
        self.assertIsNone(preview['error'], preview['error'])

        replay_db, replay_error = apply_preview_to_copy(
            project, preview_statements(preview['stdout']))
        self.assertIsNone(replay_error, replay_error)

        execution = project.execute()
        self.assertIsNone(execution['error'], execution['error'])
