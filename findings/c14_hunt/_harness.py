"""Harness for the hunt_demo tests (preview vs. execution, hash seeds).

A scenario is a set of generated Django apps written to a temporary project
directory. The harness:

1. writes the "v1" models (no pending evolutions) and runs the REAL
   ``evolve --execute --noinput`` in a subprocess to install the baseline,
2. optionally loads rows with plain SQL,
3. writes the "v2" models plus the evolution files,
4. for each requested PYTHONHASHSEED, copies the baseline database and runs
   ``evolve --sql`` (the preview) in one subprocess and ``evolve --execute``
   (captured through ``connection.execute_wrapper``) in another.

Both sides therefore come from the unmodified code, in separate processes.
"""
from __future__ import print_function, unicode_literals

import json
import os
import re
import shutil
import sqlite3
import subprocess
import sys
import tempfile
import textwrap


PYTHON = '/venv/bin/python'
DRIVER = os.path.join(os.path.dirname(os.path.abspath(__file__)),
                      '_driver.py')

BOOKKEEPING_TABLES = ('django_project_version', 'django_evolution',
                      'django_migrations', 'django_content_type',
                      'sqlite_master', 'sqlite_sequence')

SETTINGS_TEMPLATE = '''
import os

SECRET_KEY = 'x'
USE_TZ = True
DEFAULT_AUTO_FIELD = 'django.db.models.AutoField'
DATABASES = {
    'default': {
        'ENGINE': 'django.db.backends.sqlite3',
        'NAME': os.environ['HUNT_DB_FILE'],
    },
    'other': {
        'ENGINE': 'django.db.backends.sqlite3',
        'NAME': os.environ['HUNT_DB_FILE'] + '.other',
    },
}
INSTALLED_APPS = %(installed_apps)r
'''


class Project(object):
    def __init__(self, apps, extra_installed_apps=(), keep=False):
        """``apps`` is an ordered list of (app_name, spec) pairs.

        spec keys: ``v1`` and ``v2`` (model source, without the import line),
        ``evolutions`` (list of (label, source)), optional ``v1_evolutions``
        (labels already in SEQUENCE at baseline time), optional
        ``evolutions_init`` (extra source for evolutions/__init__.py).
        """
        self.apps = list(apps)
        self.dir = tempfile.mkdtemp(prefix='hunt_c14_')
        self.base_db = os.path.join(self.dir, 'base.db')
        self.extra_installed_apps = list(extra_installed_apps)
        self.keep = keep
        self._n = 0

        self.write_settings('v1')

    def write_settings(self, stage):
        with open(os.path.join(self.dir, 'hunt_settings.py'), 'w') as fp:
            fp.write(SETTINGS_TEMPLATE % {
                'installed_apps': (
                    ['django.contrib.contenttypes'] +
                    self.extra_installed_apps +
                    ['django_evolution'] +
                    [name for name, spec in self.apps
                     if stage == 'v1' or not spec.get('removed_in_v2')]
                ),
            })

    def cleanup(self):
        if not self.keep:
            shutil.rmtree(self.dir, ignore_errors=True)

    # -- writing the apps ------------------------------------------------
    def write_stage(self, stage):
        self.write_settings(stage)

        for name, spec in self.apps:
            app_dir = os.path.join(self.dir, name)
            shutil.rmtree(app_dir, ignore_errors=True)
            os.makedirs(os.path.join(app_dir, 'evolutions'))

            with open(os.path.join(app_dir, '__init__.py'), 'w') as fp:
                fp.write('')

            with open(os.path.join(app_dir, 'models.py'), 'w') as fp:
                fp.write('from django.db import models\n\n')
                fp.write(textwrap.dedent(spec[stage]))
                fp.write('\n')

            if 'migrations' in spec:
                # An app managed by Django migrations: no evolutions package
                # (unless the app is moving from evolutions to migrations).
                if not spec.get('keep_evolutions'):
                    shutil.rmtree(os.path.join(app_dir, 'evolutions'))

                os.makedirs(os.path.join(app_dir, 'migrations'))

                with open(os.path.join(app_dir, 'migrations',
                                       '__init__.py'), 'w') as fp:
                    fp.write('')

                for mig_name, source in spec['migrations'][stage]:
                    with open(os.path.join(app_dir, 'migrations',
                                           '%s.py' % mig_name), 'w') as fp:
                        fp.write('from django.db import migrations, '
                                 'models\n\n')
                        fp.write(textwrap.dedent(source))
                        fp.write('\n')

                if not spec.get('keep_evolutions'):
                    continue

            evolutions = list(spec.get('evolutions', []))
            v1_labels = list(spec.get('v1_evolutions', []))

            if stage == 'v1':
                evolutions = [
                    (label, source)
                    for label, source in evolutions
                    if label in v1_labels
                ]

            with open(os.path.join(app_dir, 'evolutions', '__init__.py'),
                      'w') as fp:
                fp.write('SEQUENCE = %r\n'
                         % [label for label, source in evolutions])

                if stage != 'v1':
                    fp.write(textwrap.dedent(
                        spec.get('evolutions_init', '')))

            for label, source in evolutions:
                if label.endswith('.sql'):
                    path = os.path.join(app_dir, 'evolutions', label)
                    header = ''
                else:
                    path = os.path.join(app_dir, 'evolutions',
                                        '%s.py' % label)
                    header = (
                        'import datetime\n'
                        'import decimal\n'
                        'from django.db import models\n'
                        'from django_evolution.mutations import *\n\n'
                    )

                with open(path, 'w') as fp:
                    fp.write(header)
                    fp.write(textwrap.dedent(source))
                    fp.write('\n')

    # -- running ---------------------------------------------------------
    def run(self, mode, db_file, seed='0', extra=()):
        env = dict(os.environ)
        env['PYTHONHASHSEED'] = str(seed)
        env['PYTHONDONTWRITEBYTECODE'] = '1'
        env.pop('DJANGO_SETTINGS_MODULE', None)

        proc = subprocess.run(
            [PYTHON, DRIVER, self.dir, db_file, mode] + list(extra),
            env=env, stdout=subprocess.PIPE, stderr=subprocess.PIPE,
            universal_newlines=True)

        if '@@@HUNT_JSON@@@' not in proc.stdout:
            raise RuntimeError('driver failed (%s):\n%s\n%s'
                               % (mode, proc.stdout, proc.stderr))

        payload = proc.stdout.split('@@@HUNT_JSON@@@', 1)[1]

        return json.loads(payload)

    def install_baseline(self, data_sql=()):
        self.write_stage('v1')
        result = self.run('execute', self.base_db)

        if result['error']:
            raise RuntimeError('baseline failed: %s\n%s'
                               % (result['error'], result['stderr']))

        if data_sql:
            conn = sqlite3.connect(self.base_db)

            for statement in data_sql:
                conn.execute(statement)

            conn.commit()
            conn.close()

        self.write_stage('v2')

    def copy_db(self, tag):
        self._n += 1
        path = os.path.join(self.dir, '%s_%d.db' % (tag, self._n))
        shutil.copy(self.base_db, path)

        if os.path.exists(self.base_db + '.other'):
            shutil.copy(self.base_db + '.other', path + '.other')

        return path

    def preview(self, seed='0', extra=(), mode='sql'):
        db = self.copy_db('preview')
        result = self.run(mode, db, seed=seed, extra=extra)
        result['db'] = db

        return result

    def execute(self, seed='0', extra=(), mode='execute'):
        db = self.copy_db('exec')
        result = self.run(mode, db, seed=seed, extra=extra)
        result['db'] = db

        return result


# -- normalisation helpers ----------------------------------------------
def preview_statements(stdout):
    """Return the SQL statements printed by ``evolve --sql``."""
    return [
        line.strip()
        for line in stdout.splitlines()
        if line.strip() and not line.strip().startswith('--')
    ]


_IGNORED_PREFIXES = ('SELECT', 'PRAGMA', 'BEGIN', 'SAVEPOINT', 'RELEASE',
                     'ROLLBACK', 'COMMIT')


def _sqlite_literal(value):
    """Render a bound parameter exactly as SQLite itself would quote it."""
    if isinstance(value, dict) and '__type__' in value:
        # Dates etc. are adapted to their ISO string by the sqlite3 module
        # and Django's adapters.
        if value['__type__'] == 'datetime':
            value = value['value'].replace('T', ' ')
        else:
            value = value['value']

    conn = sqlite3.connect(':memory:')

    try:
        return conn.execute('SELECT quote(?)', (value,)).fetchone()[0]
    finally:
        conn.close()


def render_statement(sql, params):
    if params is None:
        return sql.strip()

    params = list(params)

    def _sub(m):
        if m.group(0) == '%%':
            return '%'

        return _sqlite_literal(params.pop(0))

    return re.sub(r'%%|%s', _sub, sql).strip()


def executed_statements(statements, render=True):
    """Return the schema/data statements an execution sent to the database.

    Reads, transaction control and Django Evolution's own bookkeeping
    (Version/Evolution rows, migration records) are left out.
    """
    result = []

    for sql, params in statements:
        stripped = sql.strip()

        if stripped.upper().startswith(_IGNORED_PREFIXES):
            continue

        if any(re.search(r'"%s"' % table, stripped)
               for table in BOOKKEEPING_TABLES):
            continue

        if render:
            result.append(render_statement(stripped, params))
        else:
            result.append((stripped, params))

    return result


def dump_db(path, skip_tables=BOOKKEEPING_TABLES):
    """Return (schema, rows) of a SQLite file, bookkeeping tables left out."""
    conn = sqlite3.connect(path)
    schema = {}
    rows = {}

    for type_, name, tbl_name, sql in conn.execute(
            'SELECT type, name, tbl_name, sql FROM sqlite_master'
            ' ORDER BY name'):
        if tbl_name in skip_tables or name.startswith('sqlite_'):
            continue

        schema[name] = sql

        if type_ == 'table':
            rows[name] = [
                tuple(row)
                for row in conn.execute('SELECT * FROM "%s" ORDER BY 1'
                                        % name)
            ]

    conn.close()

    return schema, rows


def apply_preview_to_copy(project, statements):
    """Run previewed statements, as printed, on a copy of the baseline."""
    db = project.copy_db('replay')
    conn = sqlite3.connect(db)
    conn.isolation_level = None
    error = None

    try:
        conn.execute('PRAGMA foreign_keys = OFF')

        for statement in statements:
            conn.execute(statement)
    except Exception as e:
        error = '%s: %s (statement: %s)' % (type(e).__name__, e, statement)
    finally:
        conn.close()

    return db, error
