import sys, pprint, difflib
sys.path.insert(0, '/tmp/hunt/c14/hunt_demo')
from _harness import *

def compare(apps, data_sql=(), seeds=('0','1','2','3'), extra=(), pmode='sql', emode='execute', verbose=False, extra_installed_apps=()):
    p = Project(apps, extra_installed_apps=extra_installed_apps)
    try:
        p.install_baseline(data_sql=data_sql)
        previews = {}
        execs = {}
        for seed in seeds:
            pv = p.preview(seed=seed, extra=extra, mode=pmode)
            ex = p.execute(seed=seed, extra=extra, mode=emode)
            if (pv['error'] or ex['error']) and seed == seeds[0]:
                print('seed', seed, 'PREVIEW ERROR', pv['error'], pv['stderr'][-2000:], pv['stdout'][-2000:])
                print('seed', seed, 'EXEC ERROR', ex['error'], ex['stderr'][-2000:])
            previews[seed] = preview_statements(pv['stdout'])
            execs[seed] = executed_statements(ex['statements'])
            if verbose and seed == seeds[0]:
                print(pv['stdout'])
                print(ex['stdout'])
        s0 = seeds[0]
        ok = True
        for seed in seeds:
            if previews[seed] != previews[s0]:
                ok = False
                print('!! preview differs between seeds', s0, seed)
                print('\n'.join(difflib.unified_diff(previews[s0], previews[seed], lineterm='')))
            if execs[seed] != execs[s0]:
                ok = False
                print('!! exec differs between seeds', s0, seed)
                print('\n'.join(difflib.unified_diff(execs[s0], execs[seed], lineterm='')))
            if previews[seed] != execs[seed] and seed == s0:
                ok = False
                print('!! preview != exec for seed', seed)
                print('\n'.join(difflib.unified_diff(previews[seed], execs[seed], 'preview', 'exec', lineterm='')))
        if ok:
            print('OK (%d statements)' % len(previews[s0]))
            if verbose:
                print('\n'.join(previews[s0]))
        return p, previews, execs
    finally:
        p.cleanup()
