import io
from django.core.management import call_command
from django_evolution.tests.base_test_case import EvolutionTestCase
from django_evolution.tests.evolutions_app.models import EvolutionsAppTestModel  # noqa


class T(EvolutionTestCase):
    def test_evolve_with_app_label_without_execute(self):
        """`evolve <app_label> --hint` (no --execute) must be accepted."""
        out = io.StringIO()
        call_command('evolve', 'django_evolution', hint=True, stdout=out,
                     verbosity=0)
