"""F-C07c witness: two run_sql() calls in one SQLExecutor scope; the second
fails; the first call's DDL+row survive (committed by new_transaction())."""
import _boot  # noqa
from django.db import connection
from django_evolution.utils.sql import SQLExecutor
try:
    with SQLExecutor('default') as ex:
        ex.run_sql(['CREATE TABLE w_c07c (id integer)',
                    'INSERT INTO w_c07c VALUES (1)'], execute=True)
        ex.run_sql(['INSERT INTO no_such_table VALUES (1)'], execute=True)
except Exception as e:
    print('failed as intended:', type(e).__name__, e)
cur = connection.cursor()
try:
    cur.execute('SELECT count(*) FROM w_c07c')
    print('rows surviving from the first run_sql of the failed scope:', cur.fetchone()[0])
except Exception as e:
    print('table rolled back:', e)
