"""F-C05b witness: the hinted ChangeField for a re-targeted ForeignKey does
not resolve the change: simulate() puts related_model into field_attrs and
never updates FieldSignature.related_model."""
import _boot  # noqa
from django.db import models
from django_evolution.diff import Diff
from django_evolution.signature import (AppSignature, FieldSignature,
                                        ModelSignature, ProjectSignature)


def project(target):
    p = ProjectSignature()
    a = AppSignature('app')
    for name in ('A', 'B'):
        m = ModelSignature(model_name=name, table_name='app_%s' % name.lower(), pk_column='id')
        m.add_field_sig(FieldSignature('id', models.AutoField, {'primary_key': True}))
        a.add_model_sig(m)
    m = ModelSignature(model_name='M', table_name='app_m', pk_column='id')
    m.add_field_sig(FieldSignature('id', models.AutoField, {'primary_key': True}))
    m.add_field_sig(FieldSignature('ref', models.ForeignKey, {}, related_model='app.%s' % target))
    a.add_model_sig(m)
    p.add_app_sig(a)
    return p


old, new = project('A'), project('B')
hint = Diff(old, new).evolution()
print('hint:', hint)
for mutation in hint['app']:
    mutation.run_simulation(app_label='app', project_sig=old, database_state=None, database='default')
residual = Diff(old, new)
print('residual difference after simulating the hint:\n%s' % residual)
print('field_attrs now:', old.get_app_sig('app').get_model_sig('M').get_field_sig('ref').field_attrs)
assert residual.is_empty(), 'hinted evolution did not resolve the change'
