"""F-C09b witness: evolutions of several apps that end up in one batch are
regrouped per task, which breaks cross-app ordering requirements.

App A has evolutions a1, a2; app B has b1.  Declared: b1 after a1, a2 after
b1.  The dependency graph orders them a1, b1, a2 - but _build_batches puts
all three evolution nodes into one batch keyed by task, and execute_tasks
runs each task's SQL in one go: a1 + a2, then b1.  a2 runs before b1."""
import _boot  # noqa
import types
from django_evolution.evolve.evolve_app_task import EvolveAppTask
from django_evolution.models import Evolution
from django_evolution.mutations import SQLMutation
from django_evolution.tests import evolutions_app, evolutions_app2
from django_evolution.utils.graph import EvolutionGraph

app_a = evolutions_app.models
app_b = evolutions_app2.models
la, lb = 'evolutions_app', 'evolutions_app2'


class Task(object):
    def __init__(self, app, label, evolutions):
        self.app, self.app_label, self._evolutions = app, label, evolutions

    def generate_mutations_info(self, pending):
        return {'mutations': pending, 'sql': ['-- %s' % m.tag for m in pending]}

    def __repr__(self):
        return '<task %s>' % self.app_label


ta = Task(app_a, la, [
    {'label': 'a1', 'mutations': [SQLMutation('A.a1', [])]},
    {'label': 'a2', 'mutations': [SQLMutation('A.a2', [])], 'after_evolutions': [(lb, 'b1')]},
])
tb = Task(app_b, lb, [
    {'label': 'b1', 'mutations': [SQLMutation('B.b1', [])], 'after_evolutions': [(la, 'a1')]},
])
graph = EvolutionGraph()
graph.process_migration_deps = False
for t in (ta, tb):
    graph.add_evolutions(
        app=t.app,
        evolutions=[Evolution(app_label=t.app_label, label=e['label'])
                    for e in t._evolutions],
        custom_evolutions=t._evolutions, extra_state={'task': t})
graph.finalize()
order = [n.key for n in graph.get_ordered() if not n.state.get('anchor')]
print('graph order      :', order)
evolver = types.SimpleNamespace(database_name='default', project_sig=None,
                                target_project_sig=None, initial_diff=None)
batches = EvolveAppTask._build_batches(evolver=evolver, graph=graph, hinted=False)
executed = []
for b in batches:
    for task, info in b.get('task_evolutions', {}).items():
        executed += [s[3:] for s in info['sql']]
print('execution order  :', executed)
assert executed.index('A.a2') > executed.index('B.b1'), \
    'a2 (declared AFTER b1) is executed before b1'
