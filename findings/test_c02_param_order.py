from django.db import models, connection
from django_evolution.compat import six
from django_evolution.mutations import AddField, ChangeField
from django_evolution.mutators import AppMutator
from django_evolution.tests.base_test_case import EvolutionTestCase
from django_evolution.tests.models import BaseTestModel
from django_evolution.tests.utils import ensure_test_db, execute_test_sql

class PBase(BaseTestModel):
    a = models.IntegerField(null=True)
    b = models.IntegerField(null=True)

class PDest(BaseTestModel):
    a = models.IntegerField(null=False)
    b = models.IntegerField(null=False)

class T(EvolutionTestCase):
    default_base_model = PBase
    def test_it(self):
        evolutions = [ChangeField('TestModel', 'b', null=False, initial=222),
                      ChangeField('TestModel', 'a', null=False, initial=111)]
        end, end_sig = self.make_end_signatures(PDest, 'TestModel')
        self.test_database_state = self.database_state.clone()
        test_sig = self.start_sig.clone()
        with ensure_test_db(model_entries=six.iteritems(self.start), end_model_entries=six.iteritems(end), app_label='tests', database='default'):
            cur = connection.cursor()
            cur.execute('INSERT INTO tests_testmodel (a, b) VALUES (NULL, NULL)')
            cur.execute('INSERT INTO tests_testmodel (a, b) VALUES (1, 2)')
            self.test_database_state.rescan_tables()
            m = AppMutator(app_label='tests', project_sig=test_sig, database_state=self.test_database_state, database='default')
            m.run_mutations(evolutions)
            sql = execute_test_sql(m.to_sql(), database='default')
            for s in sql: print(s)
            cur.execute('SELECT a, b FROM tests_testmodel ORDER BY id')
            rows = cur.fetchall()
            print('ROWS', rows)
            self.assertEqual(rows, [(111, 222), (1, 2)])
