"""Shared harness for the "hand-over to Django migrations" demonstrations.

A scenario is a generated ``tests`` app with

* ``k`` evolutions ``e1`` .. ``ek`` (each adds an integer column ``ef<i>``),
* a final evolution ``to_migrations`` holding
  ``MoveToDjangoMigrations(mark_applied=<first s migrations>)`` (preceded by
  the ``AddField``s that make the evolved schema equal to the schema after
  migration ``s``), and
* a chain of ``m`` migrations: ``0001_initial`` creates the model as it looks
  after the ``k`` evolutions, ``000<j>_add_mf<j>`` adds an integer column
  ``mf<j>``. Extra migrations (``tail``) can be appended.

The evolutions are served from in-memory modules placed in ``sys.modules``
under the names that ``django_evolution.utils.evolutions`` computes for the
``tests`` app, so the real ``get_evolution_sequence`` /
``get_unapplied_evolutions`` / ``get_app_mutations`` /
``get_app_upgrade_info`` code is exercised. The migrations are handed to
:py:class:`EvolveAppTask` through its ``migrations`` argument (the documented
way to provide in-memory migrations), or written to a real package that is
published through ``settings.MIGRATION_MODULES`` when an unmodified
management command has to find them.

Everything that is compared (what got executed, what got recorded, what the
stored signature lists, which columns exist) is read back from the database
and from the real code after ``Evolver.evolve()``.
"""

from __future__ import unicode_literals

import itertools
import os
import sys
import types

from django.db import connection, migrations, models

from django_evolution.compat.apps import register_app_models
from django_evolution.compat.db import sql_create_app, sql_delete
from django_evolution.consts import UpgradeMethod
from django_evolution.evolve import EvolveAppTask, Evolver
from django_evolution.models import Evolution, Version
from django_evolution.mutations import AddField, MoveToDjangoMigrations
from django_evolution.signals import applying_evolution, applying_migration
from django_evolution.signature import AppSignature, ModelSignature
from django_evolution.tests import models as evo_test
from django_evolution.tests.base_test_case import (EvolutionTestCase,
                                                   MigrationsTestsMixin)
from django_evolution.tests.models import BaseTestModel
from django_evolution.tests.utils import execute_test_sql
from django_evolution.utils.evolutions import get_evolutions_module_name
from django_evolution.utils.migrations import (MigrationRecorder,
                                               clear_global_custom_migrations,
                                               unrecord_applied_migrations)


_counter = itertools.count()


def make_model(field_names, name_prefix='HandoverModel'):
    """Return a new model class with the given integer columns."""
    attrs = {
        '__module__': evo_test.__name__,
    }

    for name in field_names:
        attrs[name] = models.IntegerField(default=0)

    return type(str('%s%d' % (name_prefix, next(_counter))),
                (BaseTestModel,), attrs)


class Scenario(object):
    """A generated app: k evolutions, Move(mark_applied=S), m migrations.

    Args:
        k (int):
            The number of evolutions before the hand-over evolution.

        m (int):
            The number of migrations in the basic chain (``0001_initial``
            plus ``m - 1`` AddField migrations).

        s (int):
            The length of the prefix of the chain that
            ``MoveToDjangoMigrations`` names as already applied.

        tail (list of tuple, optional):
            Extra migrations appended to the chain. Each entry is
            ``(name, callable returning a list of operations)``.

        removed_fields (list of unicode, optional):
            Columns of ``TestModel`` that the tail removes again.

        fail_in (unicode, optional):
            The name of a migration that gets a leading ``RunPython``
            operation raising an error while :py:attr:`failing` is ``True``.
    """

    def __init__(self, k, m, s, tail=(), removed_fields=(), fail_in=None):
        assert m >= 1
        assert 0 <= s <= m

        self.k = k
        self.m = m
        self.s = s
        self.tail = list(tail)
        self.removed_fields = list(removed_fields)
        self.fail_in = fail_in
        self.failing = False

        self.evo_fields = ['ef%d' % i for i in range(1, k + 1)]
        self.mig_fields = ['mf%d' % j for j in range(2, m + 1)]
        self.migration_names = (
            ['0001_initial'] +
            ['%04d_add_mf%d' % (j, j) for j in range(2, m + 1)] +
            [name for name, ops in self.tail])
        self.mark_applied = self.migration_names[:s]
        self.evolution_labels = (['e%d' % i for i in range(1, k + 1)] +
                                 ['to_migrations'])

    # -- evolutions ------------------------------------------------------
    def evolution_mutations(self):
        result = []

        for i in range(1, self.k + 1):
            result.append((
                'e%d' % i,
                [AddField('TestModel', 'ef%d' % i, models.IntegerField,
                          initial=0)],
            ))

        final = [
            AddField('TestModel', 'mf%d' % j, models.IntegerField, initial=0)
            for j in range(2, self.s + 1)
        ]
        final.append(MoveToDjangoMigrations(mark_applied=self.mark_applied))
        result.append(('to_migrations', final))

        return result

    def fields_at_evolution(self, j):
        """Columns (besides id) after the first j evolutions."""
        return ['base'] + self.evo_fields[:j]

    def fields_at_migration(self, t):
        """Columns (besides id) once the first t migrations are applied."""
        fields = ['base'] + self.evo_fields + self.mig_fields[:max(t - 1, 0)]

        if t >= len(self.migration_names) and self.tail:
            fields = [name for name in fields
                      if name not in self.removed_fields]

        return fields

    def final_fields(self, upto=None):
        if upto is None:
            upto = len(self.migration_names)

        return self.fields_at_migration(upto)

    # -- migrations ------------------------------------------------------
    def _maybe_fail(self, apps, schema_editor):
        if self.failing:
            raise RuntimeError('injected failure')

    def make_migrations(self, upto=None):
        create_fields = [
            ('id', models.AutoField(verbose_name='ID', serialize=False,
                                    auto_created=True, primary_key=True)),
        ] + [
            (name, models.IntegerField(default=0))
            for name in ['base'] + self.evo_fields
        ]

        chain = [
            ('0001_initial', [], [
                migrations.CreateModel(name='TestModel',
                                       fields=create_fields),
            ]),
        ]

        for j in range(2, self.m + 1):
            chain.append((
                self.migration_names[j - 1],
                [('tests', self.migration_names[j - 2])],
                [
                    migrations.AddField(
                        model_name='TestModel',
                        name='mf%d' % j,
                        field=models.IntegerField(default=0)),
                ]))

        for name, make_operations in self.tail:
            chain.append((name, [('tests', chain[-1][0])],
                          make_operations()))

        if upto is not None:
            chain = chain[:upto]

        result = []

        for name, dependencies, operations in chain:
            if name == self.fail_in:
                operations = [
                    migrations.RunPython(self._maybe_fail,
                                         migrations.RunPython.noop),
                ] + operations

            cls = type(str('Migration'), (migrations.Migration,), {
                'dependencies': dependencies,
                'operations': operations,
            })
            result.append(cls(name, 'tests'))

        return result

    def write_migrations_package(self, directory, package_name):
        """Write the basic migration chain as real files in a package.

        The package can be handed to Django through
        ``settings.MIGRATION_MODULES``, which lets the unmodified management
        commands find the migrations.
        """
        assert not self.tail

        package_dir = os.path.join(directory, package_name)
        os.makedirs(package_dir)

        with open(os.path.join(package_dir, '__init__.py'), 'w') as fp:
            fp.write('')

        create_fields = ''.join(
            "                ('%s', models.IntegerField(default=0)),\n" % name
            for name in ['base'] + self.evo_fields)

        with open(os.path.join(package_dir, '0001_initial.py'), 'w') as fp:
            fp.write(
                "from django.db import migrations, models\n\n\n"
                "class Migration(migrations.Migration):\n"
                "    operations = [\n"
                "        migrations.CreateModel(\n"
                "            name='TestModel',\n"
                "            fields=[\n"
                "                ('id', models.AutoField(verbose_name='ID',\n"
                "                                        serialize=False,\n"
                "                                        auto_created=True,\n"
                "                                        primary_key=True)),\n"
                "%s"
                "            ]),\n"
                "    ]\n" % create_fields)

        for j in range(2, self.m + 1):
            name = self.migration_names[j - 1]

            with open(os.path.join(package_dir, '%s.py' % name), 'w') as fp:
                fp.write(
                    "from django.db import migrations, models\n\n\n"
                    "class Migration(migrations.Migration):\n"
                    "    dependencies = [('tests', '%s')]\n"
                    "    operations = [\n"
                    "        migrations.AddField(\n"
                    "            model_name='TestModel',\n"
                    "            name='mf%d',\n"
                    "            field=models.IntegerField(default=0)),\n"
                    "    ]\n" % (self.migration_names[j - 2], j))

        return package_name


class RunResult(object):
    """What one Evolver.evolve() run did."""

    def __init__(self):
        self.executed_migrations = []
        self.applying_evolutions = []
        self.evolver = None
        self.task = None


class HandoverTestCase(MigrationsTestsMixin, EvolutionTestCase):
    """Base class for the hand-over demonstrations."""

    extra_tables = []

    def setUp(self):
        super(HandoverTestCase, self).setUp()

        self._injected_modules = []
        self._clean_tests_app()

    def tearDown(self):
        for name in self._injected_modules:
            sys.modules.pop(name, None)

        # A crash inside EvolveAppTask.prepare_tasks() leaves the global
        # custom migrations registered; do not let that leak between tests.
        clear_global_custom_migrations()

        try:
            execute_test_sql(sql_delete(evo_test))
        except Exception:
            pass

        self._clean_tests_app()

        super(HandoverTestCase, self).tearDown()

    def _clean_tests_app(self):
        with connection.cursor() as cursor:
            for table in ['tests_testmodel'] + list(self.extra_tables):
                cursor.execute('DROP TABLE IF EXISTS %s' % table)

        unrecord_applied_migrations(connection=connection,
                                    app_label='tests')
        Evolution.objects.filter(app_label='tests').delete()

    # -- set-up helpers --------------------------------------------------
    def install_evolutions(self, scenario):
        """Publish the scenario's evolutions as in-memory modules."""
        package_name = get_evolutions_module_name(evo_test)

        package = types.ModuleType(str(package_name))
        package.__file__ = '/nonexistent/hunt_c10/evolutions/__init__.py'
        package.__path__ = []
        package.SEQUENCE = list(scenario.evolution_labels)
        sys.modules[package_name] = package
        self._injected_modules.append(package_name)

        for label, mutations in scenario.evolution_mutations():
            name = '%s.%s' % (package_name, label)
            module = types.ModuleType(str(name))
            module.MUTATIONS = mutations
            sys.modules[name] = module
            setattr(package, label, module)
            self._injected_modules.append(name)

    def set_current_model(self, scenario, upto=None):
        """Register the model as of the end of the (truncated) chain."""
        model = make_model(scenario.final_fields(upto))
        self.set_base_model(model)
        register_app_models('tests', [('testmodel', model)], reset=True)

        return model

    def _store_app_sig(self, app_sig):
        version = Version.objects.current_version()

        if version.signature.get_app_sig('tests') is not None:
            version.signature.remove_app_sig('tests')

        if app_sig is not None:
            version.signature.add_app_sig(app_sig)

        version.save()

        return version

    def prepare_fresh(self, scenario, upto=None):
        """Start state: the app has never been installed."""
        self.set_current_model(scenario, upto)
        self.install_evolutions(scenario)
        self._store_app_sig(None)

    def prepare_at_evolution(self, scenario, j, upto=None):
        """Start state: installed through evolutions, first j applied."""
        assert 0 <= j <= scenario.k

        old_model = make_model(scenario.fields_at_evolution(j))
        self.set_base_model(old_model)
        register_app_models('tests', [('testmodel', old_model)], reset=True)
        execute_test_sql(sql_create_app(app=evo_test, db_name='default'))

        app_sig = AppSignature(app_id='tests',
                               upgrade_method=UpgradeMethod.EVOLUTIONS)
        app_sig.add_model_sig(ModelSignature.from_model(old_model))
        version = self._store_app_sig(app_sig)

        self.record_evolutions(
            version,
            [('tests', label) for label in scenario.evolution_labels[:j]])

        self.set_current_model(scenario, upto)
        self.install_evolutions(scenario)

    def prepare_on_migrations(self, scenario, t, upto=None):
        """Start state: handed over earlier, first t migrations applied."""
        assert scenario.s <= t <= len(scenario.migration_names)

        old_model = make_model(scenario.fields_at_migration(t))
        self.set_base_model(old_model)
        register_app_models('tests', [('testmodel', old_model)], reset=True)
        execute_test_sql(sql_create_app(app=evo_test, db_name='default'))

        app_sig = AppSignature(
            app_id='tests',
            upgrade_method=UpgradeMethod.MIGRATIONS,
            applied_migrations=scenario.migration_names[:t])
        app_sig.add_model_sig(ModelSignature.from_model(old_model))
        version = self._store_app_sig(app_sig)

        self.record_evolutions(
            version,
            [('tests', label) for label in scenario.evolution_labels])
        self.record_applied_migrations(
            [('tests', name) for name in scenario.migration_names[:t]])

        self.set_current_model(scenario, upto)
        self.install_evolutions(scenario)

    # -- running ---------------------------------------------------------
    def run_evolver(self, scenario, extra_apps=[], upto=None):
        """Run one full upgrade (Evolver.evolve()) and report what it did."""
        result = RunResult()

        def on_applying_migration(sender, migration, **kwargs):
            result.executed_migrations.append(
                (migration.app_label, migration.name))

        def on_applying_evolution(sender, task, evolutions, **kwargs):
            result.applying_evolutions.append(
                (task.app_label, [e.label for e in evolutions]))

        applying_migration.connect(on_applying_migration)
        applying_evolution.connect(on_applying_evolution)

        try:
            evolver = Evolver()
            task = EvolveAppTask(evolver=evolver,
                                 app=evo_test,
                                 migrations=scenario.make_migrations(upto))
            evolver.queue_task(task)

            for app in extra_apps:
                evolver.queue_evolve_app(app)

            result.evolver = evolver
            result.task = task
            evolver.evolve()
        finally:
            applying_migration.disconnect(on_applying_migration)
            applying_evolution.disconnect(on_applying_evolution)

        return result

    # -- reading the outcome back ---------------------------------------
    def recorded_migrations(self, app_label='tests'):
        """Rows of Django's migration table for the app (with duplicates)."""
        recorder = MigrationRecorder(connection)

        return sorted(
            recorder.migration_qs.filter(app=app_label)
            .values_list('name', flat=True))

    def stored_app_sig(self, app_label='tests'):
        return (Version.objects.current_version().signature
                .get_app_sig(app_label))

    def recorded_evolutions(self, app_label='tests'):
        return list(Evolution.objects.filter(app_label=app_label)
                    .order_by('pk').values_list('label', flat=True))

    def table_columns(self, table='tests_testmodel'):
        with connection.cursor() as cursor:
            if table not in connection.introspection.table_names(cursor):
                return None

            desc = connection.introspection.get_table_description(cursor,
                                                                  table)

        return sorted(col.name for col in desc)

    def snapshot(self):
        """Everything the property talks about, read back from the DB."""
        app_sig = self.stored_app_sig()

        return {
            'migration table': self.recorded_migrations(),
            'evolution table': self.recorded_evolutions(),
            'columns': self.table_columns(),
            'signature upgrade_method': (app_sig and
                                         app_sig.upgrade_method),
            'signature applied_migrations': app_sig and sorted(
                app_sig.applied_migrations or []),
        }

    def expected_snapshot(self, scenario, upto=None):
        """What the property demands once the hand-over is complete."""
        names = scenario.migration_names[:upto]

        return {
            'migration table': sorted(names),
            'evolution table': scenario.evolution_labels,
            'columns': sorted(['id'] + scenario.final_fields(upto)),
            'signature upgrade_method': UpgradeMethod.MIGRATIONS,
            'signature applied_migrations': sorted(names),
        }

    def check_handover(self, scenario, run, not_executed, upto=None):
        """Return the violated clauses of the property after a run."""
        problems = []
        names = scenario.migration_names[:upto]

        actual = self.snapshot()
        expected = self.expected_snapshot(scenario, upto)

        for key in sorted(expected):
            if actual[key] != expected[key]:
                problems.append('%s is %r, expected %r'
                                % (key, actual[key], expected[key]))

        executed = [name for app, name in run.executed_migrations
                    if app == 'tests']
        expected_executed = [name for name in names
                             if name not in not_executed]

        if executed != expected_executed:
            problems.append('executed migrations %r, expected %r (in order)'
                            % (executed, expected_executed))

        return problems

    def check_noop(self, run, before):
        """Return what a further run did although it should do nothing."""
        problems = []

        if run.executed_migrations:
            problems.append('further run executed migrations %r'
                            % run.executed_migrations)

        if run.applying_evolutions:
            problems.append('further run applied evolutions %r'
                            % run.applying_evolutions)

        if run.task.sql:
            problems.append('further run has evolution SQL %r'
                            % run.task.sql)

        if run.task.new_evolutions:
            problems.append('further run records evolutions %r again'
                            % [e.label for e in run.task.new_evolutions])

        after = self.snapshot()

        for key in sorted(before):
            if after[key] != before[key]:
                problems.append('further run changed %s: %r -> %r'
                                % (key, before[key], after[key]))

        return problems
