"""Pending evolutions are silently dropped during the hand-over when a later
migration undoes what they did, and the later migration then fails.

Run with:

    cd /tmp/hunt/c10 && /venv/bin/python -m pytest \
        hunt_demo/test_evolution_undone_by_later_migration.py \
        --rootdir=/tmp/hunt/c10 -c /tmp/hunt/c10/setup.cfg \
        -p no:cacheprovider -q -s

History of the app:

* baseline:            TestModel(base)
* evolution e1:        AddField ef1          (a helper column)
* evolution to_migrations: MoveToDjangoMigrations(['0001_initial'])
* migration 0001_initial:  CreateModel TestModel(base, ef1)    [covered]
* migration 0002_move_data: RunPython (moves the helper column's data)
* migration 0003_remove_ef1: RemoveField ef1 (helper column retired)

so the model ends up looking exactly like the baseline again.

The same database (at the baseline, no evolution applied) is upgraded

* in two steps (first to the release that ends at 0002, then to the release
  that ends at 0003), and
* in one step, straight to the release that ends at 0003.

Both must end in the same place. Both sides are computed by the real code.
"""

from __future__ import unicode_literals

from django.db import migrations

from hunt_demo.handover_harness import HandoverTestCase, Scenario


def make_scenario():
    return Scenario(
        k=1, m=1, s=1,
        tail=[
            ('0002_move_data', lambda: [
                migrations.RunPython(migrations.RunPython.noop,
                                     migrations.RunPython.noop),
            ]),
            ('0003_remove_ef1', lambda: [
                migrations.RemoveField(model_name='TestModel', name='ef1'),
            ]),
        ],
        removed_fields=['ef1'])


class EvolutionUndoneByLaterMigrationTests(HandoverTestCase):
    def _upgrade(self, steps):
        """Upgrade a baseline database through the given releases.

        Each step is the number of migrations the release ships.
        """
        scenario = make_scenario()
        self.prepare_at_evolution(scenario, 0, upto=steps[0])

        applied_evolutions = []
        error = None

        for upto in steps:
            self.set_current_model(scenario, upto)

            try:
                run = self.run_evolver(scenario, upto=upto)
            except Exception as e:
                error = '%s: %s' % (type(e).__name__, e)
                break

            applied_evolutions += run.applying_evolutions

        return {
            'error': error,
            'evolutions given SQL': applied_evolutions,
            'state': self.snapshot(),
        }

    def test_two_steps_vs_one_step(self):
        """Upgrading baseline -> 0002 -> 0003 and baseline -> 0003 agree"""
        two_steps = self._upgrade([2, 3])

        # The two-step upgrade is the reference; make sure it is sane.
        scenario = make_scenario()
        self.assertIsNone(two_steps['error'])
        self.assertEqual(two_steps['state'],
                         self.expected_snapshot(scenario))
        self.assertEqual(two_steps['evolutions given SQL'],
                         [('tests', ['e1', 'to_migrations'])])

        # Start over with the same baseline database.
        self.tearDown()
        self.setUp()

        one_step = self._upgrade([3])

        self.assertEqual(one_step, two_steps)
