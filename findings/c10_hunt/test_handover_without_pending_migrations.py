"""Hand-over with nothing left to migrate crashes (and so does any evolution
that depends on an already-applied migration when no migration is pending).

Run with:

    cd /tmp/hunt/c10 && /venv/bin/python -m pytest \
        hunt_demo/test_handover_without_pending_migrations.py \
        --rootdir=/tmp/hunt/c10 -c /tmp/hunt/c10/setup.cfg \
        -p no:cacheprovider -q -s

History: an app with evolutions ``e1`` and ``to_migrations`` =
``MoveToDjangoMigrations(mark_applied=<every migration of the app>)``. This
is the most common hand-over of all: the release that moves to migrations
ships only ``0001_initial`` and the default ``MoveToDjangoMigrations()``.

Property clauses checked (all read back from the database after
``Evolver.evolve()``): the pending evolutions are applied and recorded, the
named migrations are recorded exactly once and not executed, the stored
signature is on migrations and lists exactly the recorded migrations, and a
further run is a no-op.
"""

from __future__ import unicode_literals

import sys

from django.db import connection, models

from django_evolution.compat.apps import get_app
from django_evolution.evolve import EvolveAppTask, Evolver
from django_evolution.mutations import AddField
from django_evolution.tests import models as evo_test
from django_evolution.utils.migrations import unrecord_applied_migrations

from hunt_demo.handover_harness import HandoverTestCase, Scenario


class HandoverWithoutPendingMigrationsTests(HandoverTestCase):
    def _run_handover(self, scenario, start, extra_apps=[]):
        self.prepare_at_evolution(scenario, start)

        first = self.run_evolver(scenario, extra_apps=extra_apps)
        problems = self.check_handover(scenario, first,
                                       not_executed=scenario.mark_applied)

        before = self.snapshot()
        second = self.run_evolver(scenario, extra_apps=extra_apps)
        problems += self.check_noop(second, before)

        return problems

    def test_control_one_migration_left(self):
        """Control (passes): same history, but one migration is not covered
        """
        problems = self._run_handover(Scenario(k=1, m=2, s=1), start=0)
        self.assertEqual(problems, [])

    def test_control_migration_only_neighbour_has_work(self):
        """Control (passes): everything covered, but a migration-only
        neighbour happens to have pending migrations in the same run
        """
        self.ensure_deleted_apps(['migrations_app'])
        unrecord_applied_migrations(connection=connection,
                                    app_label='migrations_app')

        problems = self._run_handover(Scenario(k=1, m=1, s=1), start=0,
                                      extra_apps=[get_app('migrations_app')])
        self.assertEqual(problems, [])

    def test_default_mark_applied_with_only_initial_migration(self):
        """MoveToDjangoMigrations() + only 0001_initial, database at e0"""
        problems = self._run_handover(Scenario(k=1, m=1, s=1), start=0)
        self.assertEqual(problems, [])

    def test_only_the_handover_evolution_is_pending(self):
        """Same, database already at e1 (only to_migrations pending)"""
        problems = self._run_handover(Scenario(k=1, m=1, s=1), start=1)
        self.assertEqual(problems, [])

    def test_all_of_three_migrations_covered(self):
        """mark_applied names all of 0001..0003, database at e0"""
        problems = self._run_handover(Scenario(k=2, m=3, s=3), start=0)
        self.assertEqual(problems, [])

    def test_evolution_only_neighbour_depending_on_applied_migration(self):
        """Same root cause, other trigger: an evolution-only app whose
        evolution declares after_migrations on a migration that was applied
        long ago, in a run where no migration is pending
        """
        # Fully install the migration-only app first (like an app that has
        # completed its hand-over earlier).
        self.ensure_deleted_apps(['migrations_app'])
        unrecord_applied_migrations(connection=connection,
                                    app_label='migrations_app')

        evolver = Evolver()
        evolver.queue_evolve_app(get_app('migrations_app'))
        evolver.evolve()
        self.assertEqual(set(self.recorded_migrations('migrations_app')),
                         {'0001_initial', '0002_add_field'})

        # 'tests' is an evolution-only app at its baseline.
        scenario = Scenario(k=1, m=1, s=1)
        self.prepare_at_evolution(scenario, 0)

        # (No generated evolution modules here: the evolution is handed to
        # the task directly, so that it can carry the dependency.)
        for name in self._injected_modules:
            sys.modules.pop(name, None)

        evolver = Evolver()
        task = EvolveAppTask(evolver=evolver, app=evo_test, evolutions=[{
            'label': 'add_ef1',
            'after_migrations': [('migrations_app', '0001_initial')],
            'mutations': [
                AddField('TestModel', 'ef1', models.IntegerField, initial=0),
            ],
        }])
        evolver.queue_task(task)
        evolver.queue_evolve_app(get_app('migrations_app'))
        evolver.evolve()

        self.assertEqual(self.table_columns(), ['base', 'ef1', 'id'])
