"""During the hand-over run, a model that a later migration introduces is
created by the evolver itself, so the migration fails with "table already
exists". Only databases that are still on evolutions are affected.

Run with:

    cd /tmp/hunt/c10 && /venv/bin/python -m pytest \
        hunt_demo/test_new_model_created_before_its_migration.py \
        --rootdir=/tmp/hunt/c10 -c /tmp/hunt/c10/setup.cfg \
        -p no:cacheprovider -q -s

History of the app:

* baseline:                 TestModel(base)
* evolution e1:             AddField ef1
* evolution to_migrations:  MoveToDjangoMigrations(['0001_initial'])
* migration 0001_initial:   CreateModel TestModel(base, ef1)    [covered]
* migration 0002_create_third: CreateModel Third(val)   (added after the
                                                         hand-over)

The same release is installed on a fresh database, on a database that was
handed over earlier (0001 recorded) and on databases that are still at an
earlier evolution. All start states must end in the same place; every side
is computed by the real code.
"""

from __future__ import unicode_literals

from django.db import migrations, models

from django_evolution.tests import models as evo_test
from django_evolution.tests.models import BaseTestModel
from django_evolution.tests.utils import register_models

from hunt_demo.handover_harness import HandoverTestCase, Scenario


def make_scenario():
    return Scenario(
        k=1, m=1, s=1,
        tail=[
            ('0002_create_third', lambda: [
                migrations.CreateModel(
                    name='Third',
                    fields=[
                        ('id', models.AutoField(verbose_name='ID',
                                                serialize=False,
                                                auto_created=True,
                                                primary_key=True)),
                        ('val', models.IntegerField(default=0)),
                    ]),
            ]),
        ])


class NewModelCreatedBeforeItsMigrationTests(HandoverTestCase):
    extra_tables = ['tests_third']

    def _install(self, start):
        scenario = make_scenario()

        if start == 'fresh':
            self.prepare_fresh(scenario)
        elif start == 'handed over':
            self.prepare_on_migrations(scenario, 1)
        else:
            self.prepare_at_evolution(scenario, start)

        # The release's models.py also has the new model.
        third = type(str('HandoverThird'), (BaseTestModel,), {
            '__module__': evo_test.__name__,
            'val': models.IntegerField(default=0),
        })
        register_models(self.database_state, [('Third', third)])

        error = None

        try:
            self.run_evolver(scenario)
        except Exception as e:
            error = '%s: %s' % (type(e).__name__, e)

        result = {
            'error': error,
            'state': self.snapshot(),
            'third columns': self.table_columns('tests_third'),
        }

        # Leave a clean database for the next start state.
        self.tearDown()
        self.setUp()

        return result

    def test_all_start_states_agree(self):
        """fresh / handed over earlier / at e0 / at e1 end in the same state
        """
        scenario = make_scenario()

        fresh = self._install('fresh')
        handed_over = self._install('handed over')

        # The reference outcomes are sane and agree.
        self.assertIsNone(fresh['error'])
        self.assertEqual(fresh['third columns'], ['id', 'val'])
        self.assertEqual(
            set(fresh['state']['migration table']),
            set(scenario.migration_names))
        self.assertEqual(handed_over['third columns'], ['id', 'val'])
        self.assertEqual(handed_over['state'],
                         self.expected_snapshot(scenario))

        at_e1 = self._install(1)
        at_e0 = self._install(0)

        self.assertEqual(at_e1, handed_over)
        self.assertEqual(at_e0, handed_over)
