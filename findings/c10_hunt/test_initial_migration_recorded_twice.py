"""Every "pre-stage" (initial) migration is recorded as applied twice - once
*before* it is executed - so a failing initial migration stays recorded.

Run with:

    cd /tmp/hunt/c10 && /venv/bin/python -m pytest \
        hunt_demo/test_initial_migration_recorded_twice.py \
        --rootdir=/tmp/hunt/c10 -c /tmp/hunt/c10/setup.cfg \
        -p no:cacheprovider -q -s

Both sides of each comparison come from the real code: the number of
executions of a migration is counted through the ``applying_migration``
signal, the number of recordings is counted in Django's migration table.
"""

from __future__ import unicode_literals

from collections import Counter

from django.db import connection

from django_evolution.compat.apps import get_app
from django_evolution.evolve import Evolver
from django_evolution.signals import applying_migration
from django_evolution.utils.migrations import unrecord_applied_migrations

from hunt_demo.handover_harness import HandoverTestCase, Scenario


class InitialMigrationRecordedTwiceTests(HandoverTestCase):
    def test_fresh_database(self):
        """Fresh database: 0001_initial executed once, recorded twice"""
        scenario = Scenario(k=1, m=2, s=1)
        self.prepare_fresh(scenario)

        first = self.run_evolver(scenario)

        executed = Counter(name for app, name in first.executed_migrations
                           if app == 'tests')
        recorded = Counter(self.recorded_migrations())

        # Each migration was executed exactly once ...
        self.assertEqual(executed,
                         Counter({'0001_initial': 1, '0002_add_mf2': 1}))

        # ... so each must be recorded exactly once.
        self.assertEqual(recorded, executed)

    def test_upgrade_with_empty_mark_applied(self):
        """Database at e0, MoveToDjangoMigrations(mark_applied=[])"""
        scenario = Scenario(k=1, m=2, s=0)
        self.prepare_at_evolution(scenario, 0)

        first = self.run_evolver(scenario)

        # 0001_initial is soft-applied by Django (the table exists), which
        # is fine. All of the property's clauses must hold.
        self.assertEqual(
            self.check_handover(scenario, first, not_executed=[]),
            [])

    def test_migration_only_neighbour(self):
        """A plain migration-only app installed by the evolver"""
        self.ensure_deleted_apps(['migrations_app'])
        unrecord_applied_migrations(connection=connection,
                                    app_label='migrations_app')

        executed = Counter()

        def on_applying_migration(sender, migration, **kwargs):
            if migration.app_label == 'migrations_app':
                executed[migration.name] += 1

        applying_migration.connect(on_applying_migration)

        try:
            evolver = Evolver()
            evolver.queue_evolve_app(get_app('migrations_app'))
            evolver.evolve()
        finally:
            applying_migration.disconnect(on_applying_migration)

        self.assertEqual(executed,
                         Counter({'0001_initial': 1, '0002_add_field': 1}))
        self.assertEqual(Counter(self.recorded_migrations('migrations_app')),
                         executed)

    def test_failing_initial_migration_stays_recorded(self):
        """Fresh database, 0001_initial fails: it must not be recorded, and
        the next run (with the cause of the failure gone) must install the
        app
        """
        scenario = Scenario(k=1, m=2, s=1, fail_in='0001_initial')
        self.prepare_fresh(scenario)

        scenario.failing = True

        with self.assertRaises(Exception):
            self.run_evolver(scenario)

        # Nothing was created ...
        self.assertIsNone(self.table_columns())

        # ... so nothing may be recorded as applied.
        recorded_after_failure = self.recorded_migrations()

        # Second attempt, the failure is gone.
        scenario.failing = False
        recovery_error = None

        try:
            run = self.run_evolver(scenario)
            problems = self.check_handover(scenario, run, not_executed=[])
        except Exception as e:
            recovery_error = e
            problems = ['the recovery run failed: %s: %s'
                        % (type(e).__name__, e)]

        self.assertEqual(
            (recorded_after_failure, problems),
            ([], []))
