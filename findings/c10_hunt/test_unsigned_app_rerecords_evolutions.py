"""After a first installation that failed part-way, the app never gets a
stored signature, and every further run records all of its evolutions again.

Run with:

    cd /tmp/hunt/c10 && /venv/bin/python -m pytest \
        hunt_demo/test_unsigned_app_rerecords_evolutions.py \
        --rootdir=/tmp/hunt/c10 -c /tmp/hunt/c10/setup.cfg \
        -p no:cacheprovider -q -s

History: fresh database, app with e1 + to_migrations (mark_applied =
['0001_initial']) and migrations 0001..0003. The first run fails inside
0002 (0001 has been executed, so the table exists; the signature and the
evolutions are not saved, because ``Evolver.evolve()`` aborted). The cause
of the failure is removed and the upgrade is run again (twice).

The reference is the same installation without the failure. Both sides are
computed by the real code.
"""

from __future__ import unicode_literals

from hunt_demo.handover_harness import HandoverTestCase, Scenario


class UnsignedAppRerecordsEvolutionsTests(HandoverTestCase):
    def _install(self, fail_first):
        scenario = Scenario(k=1, m=3, s=1, fail_in='0002_add_mf2')
        self.prepare_fresh(scenario)

        if fail_first:
            scenario.failing = True

            with self.assertRaises(Exception):
                self.run_evolver(scenario)

            scenario.failing = False

            # Only 0001 got through.
            self.assertEqual(self.table_columns(), ['base', 'ef1', 'id'])

        self.run_evolver(scenario)
        installed = self.snapshot()

        # One more run: must be a no-op.
        further = self.run_evolver(scenario)
        noop_problems = self.check_noop(further, installed)

        # The migration table is compared as a set here: the duplicate row
        # for 0001_initial is a different defect
        # (test_initial_migration_recorded_twice.py).
        installed['migration table'] = sorted(
            set(installed['migration table']))

        result = {
            'installed': installed,
            'further run': noop_problems,
        }

        self.tearDown()
        self.setUp()

        return result

    def test_recovery_after_failed_first_install(self):
        """install == (failed install + retry), and further runs are no-ops
        """
        reference = self._install(fail_first=False)

        scenario = Scenario(k=1, m=3, s=1)
        expected = self.expected_snapshot(scenario)
        self.assertEqual(reference, {
            'installed': expected,
            'further run': [],
        })

        recovered = self._install(fail_first=True)

        self.assertEqual(recovered, reference)
