"""Exploration sweep over the property's quantifiers (not a demonstration).

    cd /tmp/hunt/c10 && /venv/bin/python -m pytest hunt_demo/sweep_handover.py \
        --rootdir=/tmp/hunt/c10 -c /tmp/hunt/c10/setup.cfg \
        -p no:cacheprovider -q

k evolutions x m migrations x every prefix S x {fresh, at evolution j,
already on migrations with t applied} x {alone, next to an evolution-only and
a migration-only app}. Every case runs the upgrade twice and checks all the
clauses of the property (see handover_harness.check_handover/check_noop).

On the unmodified code the failures fall into two patterns only (duplicate
0001_initial rows; crash in DependencyGraph.finalize()). With the six
HUNT_FIX_*.diff repairs applied, all cases pass.
"""
from __future__ import print_function, unicode_literals

from django.db import connection

from django_evolution.compat.apps import get_app
from django_evolution.utils.migrations import unrecord_applied_migrations

from hunt_demo.handover_harness import HandoverTestCase, Scenario


CASES = []

for k in (0, 1, 2):
    for m in (1, 2, 3):
        for s in range(0, m + 1):
            for nb in ('alone', 'nb'):
                if nb == 'nb' and (k == 1 or m == 2):
                    continue

                CASES.append((k, m, s, 'fresh', nb))

                for j in range(0, k + 1):
                    CASES.append((k, m, s, 'e%d' % j, nb))

                for t in range(s, m + 1):
                    CASES.append((k, m, s, 'm%d' % t, nb))


class SweepTests(HandoverTestCase):
    pass


def _make(k, m, s, start, nb):
    def test(self):
        scenario = Scenario(k=k, m=m, s=s)
        extra_apps = []

        if nb == 'nb':
            self.ensure_deleted_apps(['evolutions_app', 'migrations_app'])
            unrecord_applied_migrations(connection=connection,
                                        app_label='migrations_app')

        if start == 'fresh':
            self.prepare_fresh(scenario)
            not_executed = []
        elif start.startswith('e'):
            self.prepare_at_evolution(scenario, int(start[1:]))
            not_executed = scenario.mark_applied
        else:
            t = int(start[1:])
            self.prepare_on_migrations(scenario, t)
            not_executed = scenario.migration_names[:t]

        if nb == 'nb':
            extra_apps = [get_app('evolutions_app'),
                          get_app('migrations_app')]

        first = self.run_evolver(scenario, extra_apps=extra_apps)
        problems = self.check_handover(scenario, first, not_executed)

        if nb == 'nb':
            rec = self.recorded_migrations('migrations_app')

            if rec != ['0001_initial', '0002_add_field']:
                problems.append('migrations_app recorded %r' % rec)

            evs = self.recorded_evolutions('evolutions_app')

            if evs != ['first_evolution', 'second_evolution']:
                problems.append('evolutions_app evolutions %r' % evs)

        before = self.snapshot()
        second = self.run_evolver(scenario, extra_apps=extra_apps)
        problems += self.check_noop(second, before)

        self.assertEqual(problems, [])

    return test


for case in CASES:
    setattr(SweepTests, 'test_k%d_m%d_s%d_%s_%s' % case, _make(*case))
