"""``evolve --execute`` (and therefore ``migrate``) answers "No database
upgrade required." when the only pending work is migrations of an app that
is already on migrations, so the remaining migrations are never executed.

Run with:

    cd /tmp/hunt/c10 && /venv/bin/python -m pytest \
        hunt_demo/test_evolve_command_skips_pending_migrations.py \
        --rootdir=/tmp/hunt/c10 -c /tmp/hunt/c10/setup.cfg \
        -p no:cacheprovider -q -s

The app was handed over to migrations by an earlier release (all evolutions
and ``0001_initial`` recorded, stored signature on migrations). The new
release ships ``0002_add_mf2`` and ``0003_add_mf3``. The migrations are real
files in a package published through ``settings.MIGRATION_MODULES``, so the
unmodified management command finds them on its own.

Two sides, both from the real code:

* ``call_command('evolve', execute=True, interactive=False)``, and
* ``Evolver().queue_evolve_all_apps(); evolver.evolve()`` - exactly what the
  command would run if it decided that there is something to do.
"""

from __future__ import unicode_literals

import io
import shutil
import sys
import tempfile

from django.core.management import call_command
from django.test.utils import override_settings

from django_evolution.evolve import Evolver

from hunt_demo.handover_harness import HandoverTestCase, Scenario


class EvolveCommandSkipsPendingMigrationsTests(HandoverTestCase):
    def _prepare(self, package_name):
        # Bring every other installed app up to date first, so that the
        # generated app is the only one with pending work.
        self.ensure_deleted_apps()

        evolver = Evolver()
        evolver.queue_evolve_all_apps()
        evolver.evolve()

        scenario = Scenario(k=1, m=3, s=1)

        tmp_dir = tempfile.mkdtemp()
        self.addCleanup(shutil.rmtree, tmp_dir)
        sys.path.insert(0, tmp_dir)
        self.addCleanup(sys.path.remove, tmp_dir)
        scenario.write_migrations_package(tmp_dir, package_name)

        # Handed over earlier: e1 + to_migrations + 0001_initial recorded.
        self.prepare_on_migrations(scenario, 1)

        return scenario

    def test_command_vs_evolver(self):
        """evolve --execute applies the app's remaining migrations"""
        package_name = 'hunt_c10_migrations_pkg'
        scenario = self._prepare(package_name)
        before = self.snapshot()

        with override_settings(MIGRATION_MODULES={'tests': package_name}):
            stdout = io.StringIO()
            call_command('evolve', execute=True, interactive=False,
                         verbosity=1, stdout=stdout)
            after_command = self.snapshot()

            # The reference: the evolver itself, with the same queue.
            evolver = Evolver()
            evolver.queue_evolve_all_apps()
            evolver.evolve()
            after_evolver = self.snapshot()

        # The evolver does what the property demands ...
        self.assertNotEqual(after_evolver, before)
        self.assertEqual(after_evolver, self.expected_snapshot(scenario))

        # ... so it was not a no-op, and the command must have done it.
        self.assertEqual(
            (stdout.getvalue().strip(), after_command),
            (stdout.getvalue().strip(), after_evolver),
            'The evolve command said %r and left the app at %r'
            % (stdout.getvalue().strip(), after_command))
