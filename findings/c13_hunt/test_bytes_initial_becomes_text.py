"""A bytes initial value (BinaryField default) is hinted as a text string.

StringSerialization.serialize_to_python() decodes bytes as UTF-8 and writes
the repr of the resulting text, so AddField(..., models.BinaryField,
initial=b'abc') is written as initial='abc'. The loaded mutation populates the
new BLOB column with TEXT values instead of BLOBs. Bytes that aren't valid
UTF-8 make hint generation crash with UnicodeDecodeError.
"""

from __future__ import unicode_literals

import os
import sys

sys.path.insert(0, os.path.dirname(__file__))

from django.db import connection, models

from django_evolution.diff import Diff
from django_evolution.tests.base_test_case import EvolutionTestCase
from django_evolution.tests.models import BaseTestModel

from _harness import (check_hint_roundtrip, load_evolution_content,
                      render_evolution_content)


class BytesBaseModel(BaseTestModel):
    char_field = models.CharField(max_length=20)


class BytesInitialTests(EvolutionTestCase):
    default_base_model = BytesBaseModel

    def test_binaryfield_default_hint_roundtrip(self):
        """BinaryField(default=b'abc') added, hinted, written, loaded"""
        class DestModel(BaseTestModel):
            char_field = models.CharField(max_length=20)
            added_field = models.BinaryField(default=b'abc')

        loaded = check_hint_roundtrip(self, DestModel)

    def test_binaryfield_default_loaded_initial_type(self):
        """The loaded AddField has the same initial value as the hinted one"""
        class DestModel(BaseTestModel):
            char_field = models.CharField(max_length=20)
            added_field = models.BinaryField(default=b'abc')

        end, end_sig = self.make_end_signatures(DestModel, 'TestModel')
        hinted = Diff(self.start_sig, end_sig).evolution()['tests']
        loaded = load_evolution_content(render_evolution_content(hinted))

        self.assertEqual(hinted[0].initial, b'abc')
        self.assertEqual(loaded[0].initial, hinted[0].initial)

    def test_binaryfield_non_utf8_default(self):
        """BinaryField(default=b'\\xff\\xfe') added, hinted, written, loaded"""
        class DestModel(BaseTestModel):
            char_field = models.CharField(max_length=20)
            added_field = models.BinaryField(default=b'\xff\xfe')

        check_hint_roundtrip(self, DestModel)

    def test_stored_type_after_applying(self):
        """Existing rows get the same stored value from hinted and loaded"""
        from django_evolution.compat import six
        from django_evolution.mutators import AppMutator
        from django_evolution.tests.utils import (ensure_test_db,
                                                  execute_test_sql)

        class DestModel(BaseTestModel):
            char_field = models.CharField(max_length=20)
            added_field = models.BinaryField(default=b'abc')

        end, end_sig = self.make_end_signatures(DestModel, 'TestModel')
        hinted = Diff(self.start_sig, end_sig).evolution()['tests']
        loaded = load_evolution_content(render_evolution_content(hinted))

        def apply(mutations):
            test_sig = self.start_sig.clone()
            database_state = self.database_state.clone()

            with ensure_test_db(model_entries=six.iteritems(self.start),
                                end_model_entries=six.iteritems(end),
                                app_label='tests',
                                database='default'):
                with connection.cursor() as cursor:
                    cursor.execute('INSERT INTO tests_testmodel (char_field)'
                                   " VALUES ('row')")

                database_state.rescan_tables()
                app_mutator = AppMutator(app_label='tests',
                                         project_sig=test_sig,
                                         database_state=database_state,
                                         database='default')
                app_mutator.run_mutations(mutations)
                execute_test_sql(app_mutator.to_sql(), database='default')

                with connection.cursor() as cursor:
                    cursor.execute('SELECT typeof(added_field), added_field'
                                   ' FROM tests_testmodel')
                    return cursor.fetchall()

        self.assertEqual(apply(loaded), apply(hinted))
