"""Shared helpers for the c13 hunt demonstrations.

Everything here is computed from the real code: the hinted evolution text is
produced by EvolveAppTask.get_evolution_content() (what ``evolve --hint
--write`` stores) and then loaded with exec(), as Django Evolution's
get_mutations() does when importing an evolution module.
"""

from __future__ import unicode_literals

import json

from django_evolution.diff import Diff
from django_evolution.evolve import EvolveAppTask
from django_evolution.mutators import AppMutator
from django_evolution.tests import models as tests_models_module
from django_evolution.tests.utils import ensure_test_db, execute_test_sql
from django_evolution.compat import six


def render_evolution_content(mutations, app_module=tests_models_module):
    """Return what get_evolution_content() writes for the mutations."""
    task = EvolveAppTask.__new__(EvolveAppTask)
    task._mutations = list(mutations)
    task.app = app_module

    return task.get_evolution_content()


def load_evolution_content(content):
    """Load evolution module text and return its MUTATIONS."""
    namespace = {'__name__': 'hunt_demo_loaded_evolution'}
    exec(compile(content, '<hinted evolution>', 'exec'), namespace)

    return namespace['MUTATIONS']


def simulate(testcase, mutations, db_name='default'):
    """Simulate mutations on a copy of the start signature."""
    test_sig = testcase.start_sig.clone()
    database_state = testcase.database_state.clone()

    for mutation in mutations:
        mutation.run_simulation(app_label='tests',
                                project_sig=test_sig,
                                database_state=database_state,
                                database=db_name)

    return test_sig


def sig_json(project_sig):
    return json.dumps(project_sig.serialize(), sort_keys=True, indent=1,
                      default=repr)


def generate_sql(testcase, mutations, end, db_name='default', execute=True):
    """Generate (and by default execute) the SQL for the mutations."""
    test_sig = testcase.start_sig.clone()
    database_state = testcase.database_state.clone()

    def run_mutations():
        database_state.rescan_tables()
        app_mutator = AppMutator(app_label='tests',
                                 project_sig=test_sig,
                                 database_state=database_state,
                                 database=db_name)
        app_mutator.run_mutations(mutations)

        return app_mutator.to_sql()

    with ensure_test_db(model_entries=six.iteritems(testcase.start),
                        end_model_entries=six.iteritems(end),
                        app_label='tests',
                        database=db_name):
        if execute:
            return execute_test_sql(run_mutations(), database=db_name)
        else:
            return run_mutations()


def check_hint_roundtrip(testcase, dest_model, model_name='TestModel',
                         check_sql=True):
    """Check the property for the pair (testcase.base_model, dest_model).

    Returns the loaded mutations.
    """
    end, end_sig = testcase.make_end_signatures(dest_model, model_name)

    diff = Diff(testcase.start_sig, end_sig)
    testcase.assertFalse(diff.is_empty())
    hinted = diff.evolution()['tests']

    content = render_evolution_content(hinted)
    print('\n----- hinted evolution -----\n%s\n----------------------------'
          % content)

    loaded = load_evolution_content(content)

    # The hinted mutations themselves do resolve the diff.
    hinted_sig = simulate(testcase, hinted)
    testcase.assertTrue(Diff(hinted_sig, end_sig).is_empty(),
                        'the hinted mutations do not resolve the diff')

    # The loaded ones must have the same effect on the signature.
    failures = []
    loaded_sig = simulate(testcase, loaded)
    remaining = Diff(loaded_sig, end_sig)

    if not remaining.is_empty():
        failures.append(
            'the loaded hinted evolution does not resolve the diff it was '
            'generated from; still unresolved:\n%s\n%s'
            % (remaining,
               [str(m) for m in remaining.evolution().get('tests', [])]))

    if loaded_sig != hinted_sig or sig_json(loaded_sig) != sig_json(hinted_sig):
        failures.append('the signature produced by the loaded mutations '
                        'differs from the one produced by the hinted '
                        'mutations')

    if check_sql:
        hinted_sql = generate_sql(testcase, hinted, end)
        loaded_sql = generate_sql(testcase, loaded, end)

        if loaded_sql != hinted_sql:
            failures.append('SQL differs:\nhinted: %s\nloaded: %s'
                            % ('\n        '.join(hinted_sql),
                               '\n        '.join(loaded_sql)))

    testcase.assertEqual(failures, [], '\n' + '\n\n'.join(failures))

    return loaded
