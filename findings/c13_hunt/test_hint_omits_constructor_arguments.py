"""Hints for RenameAppLabel and MoveToDjangoMigrations drop arguments.

RenameAppLabel.get_hint_params() never writes ``model_names``, and
MoveToDjangoMigrations has no get_hint_params() at all (so ``mark_applied``
is never written). The text rendered for such a mutation loads as a mutation
with the default argument, which has a different effect on the signature.
Since BaseMutation.__eq__ compares generate_hint() output, such mutations
also compare equal to ones they differ from.
"""

from __future__ import unicode_literals

import os
import sys

sys.path.insert(0, os.path.dirname(__file__))

from django.db import models

from django_evolution.mutations import (MoveToDjangoMigrations,
                                        RenameAppLabel)
from django_evolution.tests.base_test_case import EvolutionTestCase
from django_evolution.tests.models import BaseTestModel

from _harness import (load_evolution_content, render_evolution_content,
                      sig_json, simulate)


class HintArgsBaseModel(BaseTestModel):
    char_field = models.CharField(max_length=20)


class HintArgsOtherModel(BaseTestModel):
    int_field = models.IntegerField()


class HintOmitsArgumentsTests(EvolutionTestCase):
    default_base_model = HintArgsBaseModel
    default_extra_models = [('OtherModel', HintArgsOtherModel)]

    def _check(self, mutation):
        content = render_evolution_content([mutation])
        print('\n%s\n' % content)

        loaded = load_evolution_content(content)

        expected_sig = simulate(self, [mutation])
        loaded_sig = simulate(self, loaded)

        def summarize(project_sig):
            return {
                app_sig.app_id: {
                    'models': sorted(model_sig.model_name
                                     for model_sig in app_sig.model_sigs),
                    'applied_migrations': sorted(
                        app_sig.applied_migrations or []),
                    'upgrade_method': app_sig.upgrade_method,
                }
                for app_sig in project_sig.app_sigs
            }

        self.assertEqual(summarize(loaded_sig), summarize(expected_sig))
        self.assertEqual(sig_json(loaded_sig), sig_json(expected_sig))

        return loaded[0]

    def test_rename_app_label_model_names(self):
        """RenameAppLabel(model_names=[...]) rendered, written, loaded"""
        loaded = self._check(RenameAppLabel('tests', 'new_tests',
                                            model_names=['TestModel']))
        self.assertEqual(loaded.model_names, {'TestModel'})

    def test_move_to_django_migrations_mark_applied(self):
        """MoveToDjangoMigrations(mark_applied=[...]) rendered, written,
        loaded
        """
        mutation = MoveToDjangoMigrations(
            mark_applied=['0001_initial', '0002_more'])
        loaded = self._check(mutation)

        self.assertEqual(loaded.mark_applied, mutation.mark_applied)
        self.assertEqual(loaded.generate_dependencies(app_label='tests'),
                         mutation.generate_dependencies(app_label='tests'))

    def test_mutations_differing_in_omitted_args_are_not_equal(self):
        """Mutations with different effects don't compare equal"""
        self.assertNotEqual(
            RenameAppLabel('tests', 'new_tests', model_names=['TestModel']),
            RenameAppLabel('tests', 'new_tests', model_names=['OtherModel']))
        self.assertNotEqual(
            MoveToDjangoMigrations(mark_applied=['0001_initial']),
            MoveToDjangoMigrations(mark_applied=['0002_more']))
