"""Combined expressions are written with SQL connectors, not Python operators.

CombinedExpressionSerialization.serialize_to_python() puts
CombinedExpression.connector (the SQL-side connector constant) between the
operands. That is only valid Python for + - * /. For the others the hinted
text cannot be loaded (``%%`` SyntaxError; ``^``, ``&``, ``|``
NotImplementedError; ``<<``, ``>>`` TypeError), and for bitxor the connector
``#`` starts a Python comment, silently truncating the expression.
"""

from __future__ import unicode_literals

import os
import sys

sys.path.insert(0, os.path.dirname(__file__))

from django.db import models
from django.db.models import CheckConstraint, F, Q

from django_evolution.mutations import ChangeMeta
from django_evolution.serialization import (serialize_to_python,
                                            serialize_to_signature)
from django_evolution.tests.base_test_case import EvolutionTestCase
from django_evolution.tests.models import BaseTestModel

from _harness import check_hint_roundtrip, load_evolution_content, \
                     render_evolution_content


class ExprBaseModel(BaseTestModel):
    int_field1 = models.IntegerField()
    int_field2 = models.IntegerField()


class CombinedExpressionConnectorTests(EvolutionTestCase):
    default_base_model = ExprBaseModel

    def test_value_level_roundtrip(self):
        """serialize_to_python(<combined expression>) evaluates back"""
        cases = [
            ('add', F('a') + F('b')),
            ('sub', F('a') - 1),
            ('mul', F('a') * 2),
            ('div', F('a') / 2),
            ('mod', F('a') % 2),
            ('pow', F('a') ** 2),
            ('bitand', F('a').bitand(2)),
            ('bitor', F('a').bitor(2)),
            ('bitxor', F('a').bitxor(2)),
            ('bitleftshift', F('a').bitleftshift(2)),
            ('bitrightshift', F('a').bitrightshift(2)),
            ('nested', (F('a') % 3) ** (F('b') + 1)),
        ]

        failures = []

        for name, expr in cases:
            text = serialize_to_python(expr)

            try:
                loaded = eval(text, {'models': models})
            except BaseException as e:
                failures.append('%s: %r rendered as %s does not load: %r'
                                % (name, expr, text, e))
                continue

            if (loaded != expr or
                serialize_to_signature(loaded) !=
                serialize_to_signature(expr)):
                failures.append('%s: %r rendered as %s loads as %r'
                                % (name, expr, text, loaded))

        self.assertEqual(failures, [], '\n' + '\n'.join(failures))

    def test_hinted_check_constraint_with_modulo(self):
        """CheckConstraint(check=Q(f1=F(f2) % 10)) hinted, written, loaded"""
        class DestModel(BaseTestModel):
            int_field1 = models.IntegerField()
            int_field2 = models.IntegerField()

            class Meta(BaseTestModel.Meta):
                constraints = [
                    CheckConstraint(
                        name='my_check',
                        check=Q(int_field1=F('int_field2') % 10)),
                ]

        check_hint_roundtrip(self, DestModel)

    def test_written_bitxor_mutation(self):
        """A ChangeMeta holding F().bitxor() written to a file and loaded"""
        mutation = ChangeMeta(
            'TestModel', 'constraints',
            [{
                'type': CheckConstraint,
                'name': 'my_check',
                'check': Q(int_field1__gt=F('int_field2').bitxor(1)),
            }])

        content = render_evolution_content([mutation])
        print(content)

        loaded = load_evolution_content(content)
        self.assertEqual(loaded, [mutation])
        self.assertEqual(loaded[0].new_value[0]['check'],
                         mutation.new_value[0]['check'])
