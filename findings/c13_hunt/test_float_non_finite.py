"""Non-finite floats are written as bare names (inf, nan).

PrimitiveSerialization.serialize_to_python() returns repr(value). For
float('inf'), float('-inf') and float('nan') the repr is ``inf``, ``-inf`` and
``nan``, which are not Python expressions: loading the hinted evolution raises
NameError.
"""

from __future__ import unicode_literals

import math
import os
import sys

sys.path.insert(0, os.path.dirname(__file__))

from django.db import models

from django_evolution.mutations import AddField
from django_evolution.tests.base_test_case import EvolutionTestCase
from django_evolution.tests.models import BaseTestModel

from _harness import (check_hint_roundtrip, load_evolution_content,
                      render_evolution_content)


class FloatBaseModel(BaseTestModel):
    char_field = models.CharField(max_length=20)


class NonFiniteFloatTests(EvolutionTestCase):
    default_base_model = FloatBaseModel

    def test_floatfield_default_inf(self):
        """FloatField(default=float('inf')) added, hinted, written, loaded"""
        class DestModel(BaseTestModel):
            char_field = models.CharField(max_length=20)
            added_field = models.FloatField(default=float('inf'))

        check_hint_roundtrip(self, DestModel)

    def test_direct_mutations(self):
        """AddField(initial=<non-finite float>) rendered, written, loaded"""
        for value in (float('inf'), float('-inf'), float('nan')):
            mutation = AddField('TestModel', 'added_field',
                                models.FloatField, initial=value)
            content = render_evolution_content([mutation])
            print(content)
            loaded = load_evolution_content(content)[0]

            if math.isnan(value):
                self.assertTrue(math.isnan(loaded.initial))
            else:
                self.assertEqual(loaded.initial, value)
