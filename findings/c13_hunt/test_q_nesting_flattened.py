"""Hinted evolutions flatten the structure of nested Q objects.

A Q that wraps another Q (single-child nesting), or that holds a non-negated
child Q with the same connector, is written with the ``&``/``|`` operators.
Evaluating those operators squashes such children (django.utils.tree.Node.add),
so the loaded mutation carries a different Q tree, stores a different
signature, and no longer resolves the diff it was generated from.
"""

from __future__ import unicode_literals

import os
import sys

sys.path.insert(0, os.path.dirname(__file__))

from django.db import models
from django.db.models import CheckConstraint, Q, UniqueConstraint, Index

from django_evolution.serialization import (serialize_to_python,
                                            serialize_to_signature)
from django_evolution.tests.base_test_case import EvolutionTestCase
from django_evolution.tests.models import BaseTestModel

from _harness import check_hint_roundtrip


class QBaseModel(BaseTestModel):
    int_field1 = models.IntegerField()
    int_field2 = models.IntegerField()
    char_field1 = models.CharField(max_length=20)


class QNestingTests(EvolutionTestCase):
    default_base_model = QBaseModel

    def test_value_level_roundtrip(self):
        """serialize_to_python(Q) evaluates back to an equal Q"""
        cases = [
            # single-child nesting
            Q(Q(int_field1=1) | Q(int_field2=2)),
            ~Q(Q(int_field1=1) | Q(int_field2=2)),
            # a filter wrapped together with a keyword
            Q(Q(int_field1=1) & Q(int_field2=2), char_field1='x'),
            Q(Q(int_field1=1), char_field1='x'),
            # double negation
            Q(~Q(int_field1=1), _negated=True),
        ]

        failures = []

        for q in cases:
            text = serialize_to_python(q)
            loaded = eval(text, {'models': models})

            if (loaded != q or
                serialize_to_signature(loaded) != serialize_to_signature(q)):
                failures.append('%r\n   rendered as %s\n   loads as  %r'
                                % (q, text, loaded))

        self.assertEqual(failures, [], '\n' + '\n'.join(failures))

    def test_check_constraint_single_child_nesting(self):
        """CheckConstraint(check=Q(Q(..) | Q(..))) hinted, written, loaded"""
        class DestModel(BaseTestModel):
            int_field1 = models.IntegerField()
            int_field2 = models.IntegerField()
            char_field1 = models.CharField(max_length=20)

            class Meta(BaseTestModel.Meta):
                constraints = [
                    CheckConstraint(
                        name='my_check',
                        check=Q(Q(int_field1__gte=1) | Q(int_field2__gte=2))),
                ]

        check_hint_roundtrip(self, DestModel)

    def test_index_condition_same_connector_child(self):
        """Index(condition=Q(Q(a, b), c)) hinted, written, loaded"""
        class DestModel(BaseTestModel):
            int_field1 = models.IntegerField()
            int_field2 = models.IntegerField()
            char_field1 = models.CharField(max_length=20)

            class Meta(BaseTestModel.Meta):
                indexes = [
                    Index(name='my_idx',
                          fields=['char_field1'],
                          condition=Q(Q(int_field1__gte=1, int_field2__gte=2),
                                      char_field1__gt='a')),
                ]

        check_hint_roundtrip(self, DestModel)
