"""Purging a stale app leaves an (empty) entry for it in the stored signature.

Property C15: purging removes exactly the app's entries from the stored
signature. After a purge, the stored signature must equal the signature the
project had before the stale app was ever recorded, and a second run must
not see the app any more.

On the unmodified code:

* the purged app stays in the stored signature as an empty AppSignature;
* every later Evolver still lists it in ``initial_diff.deleted``;
* ``./manage.py evolve --purge --execute`` cannot be used at all: the
  post-simulation diff still reports "The application X has been deleted"
  and the command aborts with CommandError before executing anything.
"""

from __future__ import unicode_literals

from django.core.management import call_command
from django.core.management.base import CommandError
from django.db import connection, connections, models
from django.db.migrations.recorder import MigrationRecorder

from django_evolution.evolve import Evolver
from django_evolution.models import Version
from django_evolution.signature import AppSignature
from django_evolution.tests.base_test_case import EvolutionTestCase
from django_evolution.tests.models import BaseTestModel
from django_evolution.tests.utils import execute_test_sql


class PurgeSigThing(BaseTestModel):
    value = models.IntegerField(default=1)

    class Meta:
        app_label = 'hunt_purgesig_old'


def get_tables():
    conn = connections['default']

    with conn.cursor() as cursor:
        return set(
            info.name
            for info in conn.introspection.get_table_list(cursor)
        )


class PurgeLeavesAppSigTests(EvolutionTestCase):
    needs_evolution_models = True

    def setUp(self):
        super(PurgeLeavesAppSigTests, self).setUp()

        self.tables_at_start = get_tables()
        self._forget_test_app_migrations()

        # Bring the stored signature up to date with every installed app, so
        # that the only thing left to do is the purge.
        call_command('evolve', '--execute', '--noinput', verbosity=0)

        self.sig_without_stale_app = \
            Version.objects.current_version().signature.serialize()

        # Record a stale app (not in INSTALLED_APPS) with one table.
        with connection.schema_editor() as editor:
            editor.create_model(PurgeSigThing)

        app_sig = AppSignature(app_id='hunt_purgesig_old')
        app_sig.add_model(PurgeSigThing)

        version = Version.objects.current_version()
        version.signature.add_app_sig(app_sig)
        version.save()

    def tearDown(self):
        extra = get_tables() - self.tables_at_start

        self.ensure_deleted_apps()
        self._forget_test_app_migrations()

        for table_name in get_tables() & extra:
            execute_test_sql(['DROP TABLE "%s";' % table_name])

        super(PurgeLeavesAppSigTests, self).tearDown()

    def _forget_test_app_migrations(self):
        # The base test case drops the test apps' tables after each test but
        # leaves their rows in django_migrations. Clear those, so that
        # "evolve --execute" can be run in more than one test.
        MigrationRecorder(connection).migration_qs.filter(
            app__in=self.builtin_test_app_labels).delete()

    def test_evolver_purge_removes_app_from_stored_signature(self):
        """Evolver.queue_purge_old_apps: the stored signature afterwards has
        no trace of the app"""
        evolver = Evolver()
        self.assertEqual(list(evolver.initial_diff.deleted),
                         ['hunt_purgesig_old'])

        evolver.queue_purge_old_apps()
        evolver.evolve()

        # The table is gone ...
        self.assertNotIn('hunt_purgesig_old_purgesigthing', get_tables())

        # ... and so should the signature entry be.
        stored_sig = Version.objects.current_version().signature

        self.assertEqual(
            [app_sig.app_id for app_sig in stored_sig.app_sigs
             if app_sig.app_id.startswith('hunt_')],
            [])
        self.assertEqual(stored_sig.serialize(), self.sig_without_stale_app)

        # A second run has nothing left to purge.
        self.assertEqual(list(Evolver().initial_diff.deleted), [])

    def test_evolve_purge_command(self):
        """evolve --purge --execute purges the stale app"""
        try:
            call_command('evolve', '--purge', '--execute', '--noinput',
                         verbosity=0)
        except CommandError as e:
            self.fail('evolve --purge --execute failed: %s' % e)

        self.assertNotIn('hunt_purgesig_old_purgesigthing', get_tables())
        self.assertEqual(
            Version.objects.current_version().signature.serialize(),
            self.sig_without_stale_app)
