"""Deleting a model with a ManyToManyField(through=...) drops a table the
field never owned.

Property C15: DeleteModel/DeleteApplication/purge drop exactly the tables
owned by the named model or app, *including the automatically created tables
of its many-to-many fields*, and nothing else.

A ManyToManyField with an explicit ``through=`` model has no automatically
created table: its rows live in the through model's table, and the through
model is a model of its own in the signature. The field signature doesn't
record ``through`` though, so DeleteModel always computes the name an
automatic table would have had (``<db_table>_<field name>``, or the field's
``db_table``) and emits ``DROP TABLE`` for it. On the unmodified code:

* normally that table doesn't exist, and the whole evolution/purge fails with
  "no such table" (so the model/app can never be deleted);
* if some other model's table happens to carry that name (custom db_table
  names that are prefixes of each other: ``shop`` and ``shop_items``), that
  other model's table is silently dropped, with its rows, while its model
  stays in the signature.
"""

from __future__ import unicode_literals

from django.db import connection, connections, models

from django_evolution.evolve import Evolver
from django_evolution.models import Version
from django_evolution.mutations import DeleteModel
from django_evolution.mutators import AppMutator
from django_evolution.signature import AppSignature
from django_evolution.tests.base_test_case import EvolutionTestCase
from django_evolution.tests.models import BaseTestModel
from django_evolution.tests.utils import execute_test_sql


class ThrItem(BaseTestModel):
    value = models.IntegerField(default=1)

    class Meta:
        app_label = 'hunt_thr_shop'
        db_table = 'shop_item'


class ThrShop(BaseTestModel):
    value = models.IntegerField(default=1)
    items = models.ManyToManyField(ThrItem, through='hunt_thr_shop.ThrLink',
                                   related_name='+')

    class Meta:
        app_label = 'hunt_thr_shop'
        db_table = 'shop'


class ThrLink(BaseTestModel):
    shop = models.ForeignKey(ThrShop, on_delete=models.CASCADE)
    item = models.ForeignKey(ThrItem, on_delete=models.CASCADE)
    quantity = models.IntegerField(default=1)

    class Meta:
        app_label = 'hunt_thr_shop'
        db_table = 'shop_link'


# An unrelated model in another app, whose table name is
# "<ThrShop's table>_<ThrShop's M2M field name>".
class ThrStock(BaseTestModel):
    value = models.IntegerField(default=1)

    class Meta:
        app_label = 'hunt_thr_stock'
        db_table = 'shop_items'


# A through model that keeps the table name the automatic table used to have
# (the usual result of converting a plain ManyToManyField to through=...).
class ConvTag(BaseTestModel):
    value = models.IntegerField(default=1)

    class Meta:
        app_label = 'hunt_thr_conv'


class ConvOwner(BaseTestModel):
    value = models.IntegerField(default=1)
    tags = models.ManyToManyField(ConvTag, through='hunt_thr_conv.ConvLink',
                                  related_name='+')

    class Meta:
        app_label = 'hunt_thr_conv'


class ConvLink(BaseTestModel):
    convowner = models.ForeignKey(ConvOwner, on_delete=models.CASCADE)
    convtag = models.ForeignKey(ConvTag, on_delete=models.CASCADE)
    weight = models.IntegerField(default=1)

    class Meta:
        app_label = 'hunt_thr_conv'
        db_table = 'hunt_thr_conv_convowner_tags'


def get_tables():
    conn = connections['default']

    with conn.cursor() as cursor:
        return set(
            info.name
            for info in conn.introspection.get_table_list(cursor)
        )


def get_rows(table_name):
    with connection.cursor() as cursor:
        cursor.execute('SELECT * FROM "%s" ORDER BY 1' % table_name)

        return cursor.fetchall()


class DeleteModelExplicitThroughTests(EvolutionTestCase):
    needs_evolution_models = True

    def setUp(self):
        super(DeleteModelExplicitThroughTests, self).setUp()

        self.tables_at_start = get_tables()
        self.created_tables = {}

    def tearDown(self):
        for table_name in get_tables() - self.tables_at_start:
            execute_test_sql(['DROP TABLE "%s";' % table_name])

        super(DeleteModelExplicitThroughTests, self).tearDown()

    def install_stale_apps(self, apps):
        """Create tables and stored signature entries for uninstalled apps.

        The tables created for each model (computed from the real schema
        editor) are recorded in ``self.created_tables``.
        """
        version = Version.objects.current_version()

        for app_label, app_models in apps:
            app_sig = AppSignature(app_id=app_label)

            for model in app_models:
                before = get_tables()

                with connection.schema_editor() as editor:
                    editor.create_model(model)

                self.created_tables[model] = get_tables() - before

                app_sig.add_model(model)

            version.signature.add_app_sig(app_sig)

        version.save()

    def delete_model(self, app_label, model_name):
        evolver = Evolver()

        app_mutator = AppMutator.from_evolver(evolver=evolver,
                                              app_label=app_label)
        app_mutator.run_mutations([DeleteModel(model_name)])
        execute_test_sql(app_mutator.to_sql())

        return evolver.project_sig

    def test_delete_model(self):
        """DeleteModel for a model with ManyToManyField(through=...)"""
        self.install_stale_apps([
            ('hunt_thr_shop', [ThrItem, ThrShop, ThrLink]),
        ])

        # The schema editor created exactly one table per model: there's no
        # automatic table for ThrShop.items.
        self.assertEqual(self.created_tables[ThrShop], {'shop'})
        self.assertEqual(self.created_tables[ThrLink], {'shop_link'})

        before = get_tables()

        new_sig = self.delete_model('hunt_thr_shop', 'ThrShop')

        self.assertEqual(before - get_tables(), self.created_tables[ThrShop])
        self.assertIsNotNone(
            new_sig.get_app_sig('hunt_thr_shop').get_model_sig('ThrLink'))

    def test_delete_model_with_prefix_named_table_in_other_app(self):
        """DeleteModel for a model with ManyToManyField(through=...) and
        another app's table named <db_table>_<field name>
        """
        self.install_stale_apps([
            ('hunt_thr_shop', [ThrItem, ThrShop, ThrLink]),
            ('hunt_thr_stock', [ThrStock]),
        ])
        self.assertEqual(self.created_tables[ThrStock], {'shop_items'})

        ThrStock.objects.create(value=42)

        before = get_tables()
        stock_rows = get_rows('shop_items')

        new_sig = self.delete_model('hunt_thr_shop', 'ThrShop')

        # The other app's model is still in the signature ...
        self.assertIsNotNone(
            new_sig.get_app_sig('hunt_thr_stock').get_model_sig('ThrStock'))

        # ... so its table and rows must still be there.
        self.assertEqual(before - get_tables(), self.created_tables[ThrShop])
        self.assertEqual(get_rows('shop_items'), stock_rows)

    def test_delete_model_with_through_table_named_like_auto_table(self):
        """DeleteModel for a model with ManyToManyField(through=...) whose
        through model uses the table name an automatic table would have
        """
        self.install_stale_apps([
            ('hunt_thr_conv', [ConvTag, ConvOwner, ConvLink]),
        ])
        self.assertEqual(self.created_tables[ConvLink],
                         {'hunt_thr_conv_convowner_tags'})

        owner = ConvOwner.objects.create(value=1)
        tag = ConvTag.objects.create(value=2)
        ConvLink.objects.create(convowner=owner, convtag=tag, weight=3)

        before = get_tables()
        link_rows = get_rows('hunt_thr_conv_convowner_tags')

        new_sig = self.delete_model('hunt_thr_conv', 'ConvOwner')

        # The through model is still in the signature ...
        self.assertIsNotNone(
            new_sig.get_app_sig('hunt_thr_conv').get_model_sig('ConvLink'))

        # ... so its table and rows must still be there.
        self.assertEqual(before - get_tables(),
                         self.created_tables[ConvOwner])
        self.assertEqual(get_rows('hunt_thr_conv_convowner_tags'), link_rows)

    def test_purge_app(self):
        """Purging an app with a ManyToManyField(through=...), keeping
        another app with a table named <db_table>_<field name>
        """
        self.install_stale_apps([
            ('hunt_thr_stock', [ThrStock]),
            ('hunt_thr_shop', [ThrLink, ThrShop, ThrItem]),
        ])
        ThrStock.objects.create(value=42)

        before = get_tables()
        stock_rows = get_rows('shop_items')

        evolver = Evolver()
        evolver.queue_purge_app('hunt_thr_shop')
        evolver.evolve()

        self.assertEqual(
            before - get_tables(),
            (self.created_tables[ThrShop] |
             self.created_tables[ThrLink] |
             self.created_tables[ThrItem]))
        self.assertEqual(get_rows('shop_items'), stock_rows)
