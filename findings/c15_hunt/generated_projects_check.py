"""Generated-project sweep for property C15 (not a per-defect demonstration).

Generates 240 seeded projects of 2-4 uninstalled apps with 1-3 models each:
custom db_table names that are prefixes of each other, ForeignKey /
OneToOneField / ManyToManyField (automatic and custom db_table) relations to
earlier models in any app, self relations and multi-table inheritance across
apps. Tables are created with Django's schema editor (recording which tables
each model owns), a row is inserted in every table, and the apps are recorded
in the stored signature in definition order. Then one of:

* purge    - Evolver.queue_purge_app() for a random non-empty subset of apps
* nopurge  - Evolver().evolve() without any purge request
* delmodel - DeleteModel for one random model, through AppMutator
* delapp   - DeleteApplication for one random app, through AppMutator

and checks: dropped tables == tables owned by what was named, no new tables,
rows of all other tables unchanged, signature entries of other apps/models
unchanged, purged apps gone from the stored signature.

Run with:

    /venv/bin/python -m pytest hunt_demo/generated_projects_check.py \
        --rootdir=/tmp/hunt/c15 -c /tmp/hunt/c15/setup.cfg \
        -p no:cacheprovider -q -s

Unmodified code: 85 of 240 trials fail (all MissingSignatureError crashes or
"purged app still in sig", i.e. the delete_order_missing_sig and
purge_leaves_app_sig defects). With HUNT_ALL_FIXES_COMBINED.diff applied: 0.
"""

from __future__ import unicode_literals

import random
import traceback

from django.db import connection, connections, models

from django_evolution.compat.apps import clear_app_cache
from django_evolution.compat.models import all_models
from django_evolution.evolve import Evolver
from django_evolution.models import Version
from django_evolution.mutations import DeleteApplication, DeleteModel
from django_evolution.mutators import AppMutator
from django_evolution.signature import AppSignature
from django_evolution.tests.base_test_case import EvolutionTestCase
from django_evolution.tests.models import BaseTestModel
from django_evolution.tests.utils import execute_test_sql


def get_tables():
    conn = connections['default']

    with conn.cursor() as cursor:
        return set(
            info.name
            for info in conn.introspection.get_table_list(cursor)
        )


def get_rows(table_name):
    with connection.cursor() as cursor:
        cursor.execute('SELECT * FROM "%s" ORDER BY 1' % table_name)

        return cursor.fetchall()


def make_project(rng, trial):
    """Return [(app_label, [model, ...]), ...]."""
    n_apps = rng.randint(2, 4)
    apps = []
    all_models_so_far = []
    used_tables = set()

    for a in range(n_apps):
        app_label = 'g%d_%s' % (trial, 'abcd'[a])
        app_models = []

        for m in range(rng.randint(1, 3)):
            name = 'G%d%sM%d' % (trial, 'ABCD'[a], m)
            meta_attrs = {'app_label': app_label}

            if rng.random() < 0.5:
                # custom table names that are prefixes of each other
                base = 'g%d_t' % trial
                cand = base

                while cand in used_tables:
                    cand = cand + rng.choice(['_x', 'x', '_m2m', '_t'])

                meta_attrs['db_table'] = cand
                used_tables.add(cand)

            attrs = {
                '__module__': 'django_evolution.tests.models',
                'value': models.IntegerField(default=1),
            }

            bases = (BaseTestModel,)

            if all_models_so_far and rng.random() < 0.2:
                bases = (rng.choice(all_models_so_far),)
                attrs.pop('value')
                attrs['extra_%s' % name.lower()] = \
                    models.IntegerField(default=2)

            n_rel = rng.randint(0, 3)

            for r in range(n_rel):
                kind = rng.choice(['fk', 'm2m', 'm2m_custom', 'self_fk',
                                   'self_m2m', 'o2o'])
                fname = '%s%d_%s' % (kind, r, name.lower())

                if kind.startswith('self'):
                    target = 'self'
                elif all_models_so_far:
                    target = rng.choice(all_models_so_far)
                else:
                    continue

                if kind in ('fk', 'self_fk'):
                    attrs[fname] = models.ForeignKey(
                        target, null=True, on_delete=models.CASCADE,
                        related_name='+')
                elif kind == 'o2o':
                    attrs[fname] = models.OneToOneField(
                        target, null=True, on_delete=models.CASCADE,
                        related_name='+')
                elif kind in ('m2m', 'self_m2m'):
                    attrs[fname] = models.ManyToManyField(
                        target, related_name='+')
                elif kind == 'm2m_custom':
                    cand = 'g%d_t_m2m' % trial

                    while cand in used_tables:
                        cand = cand + rng.choice(['_x', 'x', '_m2m'])

                    used_tables.add(cand)
                    attrs[fname] = models.ManyToManyField(
                        target, related_name='+', db_table=cand)

            attrs['Meta'] = type(str('Meta'), (), meta_attrs)
            model = type(str(name), bases, attrs)
            app_models.append(model)
            all_models_so_far.append(model)

        apps.append((app_label, app_models))

    return apps


class GenTests(EvolutionTestCase):
    needs_evolution_models = True

    def setUp(self):
        super(GenTests, self).setUp()
        self.tables_at_start = get_tables()

    def tearDown(self):
        for table_name in get_tables() - self.tables_at_start:
            execute_test_sql(['DROP TABLE "%s";' % table_name])

        super(GenTests, self).tearDown()

    def run_trial(self, trial, mode):
        rng = random.Random(trial * 7 + 1)
        apps = make_project(rng, trial)
        problems = []
        created = {}
        labels = [label for label, _ in apps]

        try:
            version = Version.objects.current_version()
            base_sig = version.signature.serialize()

            for app_label, app_models in apps:
                app_sig = AppSignature(app_id=app_label)

                for model in app_models:
                    before = get_tables()

                    with connection.schema_editor() as editor:
                        editor.create_model(model)

                    created[model] = get_tables() - before
                    app_sig.add_model(model)

                version.signature.add_app_sig(app_sig)

            version.save()

            for app_label, app_models in apps:
                for model in app_models:
                    model.objects.create()

            before = get_tables()
            rows = dict((t, get_rows(t)) for t in before)
            sig_before = Version.objects.current_version().signature

            if mode == 'purge':
                chosen = [l for l in labels if rng.random() < 0.5] or \
                    [rng.choice(labels)]
                evolver = Evolver()

                for label in chosen:
                    evolver.queue_purge_app(label)

                evolver.evolve()
                expected = set()

                for app_label, app_models in apps:
                    if app_label in chosen:
                        for model in app_models:
                            expected |= created[model]

                sig_after = Version.objects.current_version().signature
                deleted_models = [(l, None) for l in chosen]
            elif mode == 'nopurge':
                chosen = []
                evolver = Evolver()
                evolver.evolve()
                expected = set()
                sig_after = Version.objects.current_version().signature
            elif mode in ('delmodel', 'delapp'):
                evolver = Evolver()
                label, app_models = rng.choice(apps)
                chosen = [label]

                if mode == 'delmodel':
                    model = rng.choice(app_models)
                    mutations = [DeleteModel(model._meta.object_name)]
                    expected = set(created[model])
                else:
                    mutations = [DeleteApplication()]
                    expected = set()

                    for model in app_models:
                        expected |= created[model]

                app_mutator = AppMutator.from_evolver(evolver=evolver,
                                                      app_label=label)
                app_mutator.run_mutations(mutations)
                execute_test_sql(app_mutator.to_sql())
                sig_after = evolver.project_sig

            after = get_tables()

            if before - after != expected:
                problems.append('dropped %r expected %r'
                                % (sorted(before - after), sorted(expected)))

            if after - before:
                problems.append('new tables %r' % sorted(after - before))

            for t in (after & before) - {'django_project_version', 'django_evolution'}:
                if get_rows(t) != rows[t]:
                    problems.append('rows changed in %s' % t)

            # signature checks
            for app_sig in sig_before.app_sigs:
                new_app_sig = sig_after.get_app_sig(app_sig.app_id)

                if app_sig.app_id in chosen:
                    if mode in ('purge',):
                        if new_app_sig is not None:
                            problems.append('purged app %s still in sig'
                                            % app_sig.app_id)
                    elif mode == 'delapp':
                        if new_app_sig is None or not new_app_sig.is_empty():
                            problems.append('delapp sig wrong')
                    elif mode == 'delmodel':
                        names = [ms.model_name for ms in new_app_sig.model_sigs]
                        exp_names = [
                            ms.model_name for ms in app_sig.model_sigs
                            if ms.model_name != model._meta.object_name
                        ]

                        if names != exp_names:
                            problems.append('delmodel names %r != %r'
                                            % (names, exp_names))

                        for ms in new_app_sig.model_sigs:
                            if (ms.serialize() !=
                                app_sig.get_model_sig(ms.model_name).serialize()):
                                problems.append('model sig changed %s'
                                                % ms.model_name)
                else:
                    if (new_app_sig is None or
                        new_app_sig.serialize() != app_sig.serialize()):
                        problems.append('other app sig changed: %s'
                                        % app_sig.app_id)
        except Exception as e:
            problems.append('EXC %s: %s' % (type(e).__name__, e))
            problems.append(traceback.format_exc()[-1500:])
        finally:
            for t in get_tables() - self.tables_at_start:
                execute_test_sql(['DROP TABLE "%s";' % t])

            for label in labels:
                all_models.pop(label, None)

            clear_app_cache()

            version = Version.objects.current_version()
            sig = version.signature

            for label in labels:
                if sig.get_app_sig(label) is not None:
                    sig.remove_app_sig(label)

            version.save()

        return apps, problems

    def test_gen(self):
        bad = 0

        for mode in ('purge', 'nopurge', 'delmodel', 'delapp'):
            for trial in range(60):
                apps, problems = self.run_trial(
                    trial + {'purge': 0, 'nopurge': 1000, 'delmodel': 2000,
                             'delapp': 3000}[mode], mode)

                if problems:
                    bad += 1
                    print('=== %s trial %d' % (mode, trial))

                    for app_label, app_models in apps:
                        for model in app_models:
                            print('  ', app_label, model.__name__,
                                  model.__bases__[0].__name__,
                                  model._meta.db_table,
                                  [(f.name, type(f).__name__,
                                    getattr(f.remote_field, 'model', None))
                                   for f in (model._meta.local_fields +
                                             model._meta.local_many_to_many)
                                   if f.remote_field])

                    for p in problems:
                        print('   !!', p)

        print('BAD', bad)
        self.assertEqual(bad, 0)
