"""Deleting/purging a proxy model drops the concrete model's table.

Property C15: purging an app, or applying DeleteApplication/DeleteModel,
drops exactly the tables owned by the named app or model; every other app's
tables and rows are unchanged.

A proxy model owns no table. Its signature is recorded like that of any other
model though, with ``table_name`` set to the concrete model's table and no
fields at all. On the unmodified code:

* purging a stale app that only contained a proxy for another (kept) app's
  model drops that other app's table, with all its rows;
* the hinted evolution for removing a proxy class from an app is
  ``DeleteModel('<Proxy>')``, which drops the concrete model's table while
  the concrete model remains in the signature.
"""

from __future__ import unicode_literals

from django.db import connection, connections, models

from django_evolution.compat.db import sql_create_models
from django_evolution.diff import Diff
from django_evolution.evolve import Evolver
from django_evolution.models import Version
from django_evolution.mutators import AppMutator
from django_evolution.signature import AppSignature
from django_evolution.tests.base_test_case import EvolutionTestCase
from django_evolution.tests.models import BaseTestModel
from django_evolution.tests.utils import execute_test_sql


class PxKept(BaseTestModel):
    value = models.IntegerField(default=1)

    class Meta:
        app_label = 'hunt_px_kept'


class PxProxy(PxKept):
    class Meta:
        app_label = 'hunt_px_old'
        proxy = True


class PxOther(BaseTestModel):
    value = models.IntegerField(default=1)

    class Meta:
        app_label = 'hunt_px_old'


class PxSameAppProxy(PxKept):
    class Meta:
        app_label = 'hunt_px_kept'
        proxy = True


def get_tables():
    conn = connections['default']

    with conn.cursor() as cursor:
        return set(
            info.name
            for info in conn.introspection.get_table_list(cursor)
        )


def get_rows(table_name):
    with connection.cursor() as cursor:
        cursor.execute('SELECT * FROM "%s" ORDER BY 1' % table_name)

        return cursor.fetchall()


class DeleteProxyModelTests(EvolutionTestCase):
    needs_evolution_models = True

    def setUp(self):
        super(DeleteProxyModelTests, self).setUp()

        self.tables_at_start = get_tables()
        self.created_tables = {}

    def tearDown(self):
        for table_name in get_tables() - self.tables_at_start:
            execute_test_sql(['DROP TABLE "%s";' % table_name])

        super(DeleteProxyModelTests, self).tearDown()

    def install_stale_apps(self, apps):
        """Create tables and stored signature entries for uninstalled apps.

        Tables are created the way Django Evolution would create them for a
        new app. Proxy models own no table, so none is created for them
        (Django's schema editor would otherwise try to create the concrete
        model's table a second time).

        The tables created for each app are recorded in
        ``self.created_tables``.
        """
        version = Version.objects.current_version()

        for app_label, app_models in apps:
            before = get_tables()

            execute_test_sql(sql_create_models([
                model
                for model in app_models
                if not model._meta.proxy
            ]))

            self.created_tables[app_label] = get_tables() - before

            app_sig = AppSignature(app_id=app_label)

            for model in app_models:
                app_sig.add_model(model)

            version.signature.add_app_sig(app_sig)

        version.save()

    def test_purge_app_with_proxy_of_other_apps_model(self):
        """Purging an app containing a proxy for another app's model"""
        self.install_stale_apps([
            ('hunt_px_kept', [PxKept]),
            ('hunt_px_old', [PxProxy, PxOther]),
        ])
        PxKept.objects.create(value=42)
        PxKept.objects.create(value=43)

        self.assertEqual(self.created_tables['hunt_px_kept'],
                         {'hunt_px_kept_pxkept'})
        self.assertEqual(self.created_tables['hunt_px_old'],
                         {'hunt_px_old_pxother'})

        before = get_tables()
        kept_rows = get_rows('hunt_px_kept_pxkept')
        kept_sig = (
            Version.objects.current_version().signature
            .get_app_sig('hunt_px_kept')
            .serialize()
        )

        evolver = Evolver()
        evolver.queue_purge_app('hunt_px_old')
        evolver.evolve()

        # Exactly the purged app's own tables are gone.
        self.assertEqual(before - get_tables(),
                         self.created_tables['hunt_px_old'])
        self.assertEqual(get_rows('hunt_px_kept_pxkept'), kept_rows)
        self.assertEqual(
            Version.objects.current_version().signature
            .get_app_sig('hunt_px_kept')
            .serialize(),
            kept_sig)

    def test_hinted_delete_model_for_removed_proxy_class(self):
        """Applying the hinted DeleteModel for a removed proxy class"""
        self.install_stale_apps([
            ('hunt_px_kept', [PxKept, PxSameAppProxy]),
        ])
        PxKept.objects.create(value=42)

        evolver = Evolver()

        # The proxy class is removed from the app's models.py.
        target_sig = evolver.project_sig.clone()
        target_sig.get_app_sig('hunt_px_kept').remove_model_sig(
            'PxSameAppProxy')

        mutations = Diff(evolver.project_sig,
                         target_sig).evolution()['hunt_px_kept']
        self.assertEqual([str(mutation) for mutation in mutations],
                         ["DeleteModel('PxSameAppProxy')"])

        before = get_tables()
        kept_rows = get_rows('hunt_px_kept_pxkept')

        app_mutator = AppMutator.from_evolver(evolver=evolver,
                                              app_label='hunt_px_kept')
        app_mutator.run_mutations(mutations)
        execute_test_sql(app_mutator.to_sql())

        self.assertTrue(Diff(evolver.project_sig, target_sig).is_empty())
        self.assertEqual(before - get_tables(), set())
        self.assertEqual(get_rows('hunt_px_kept_pxkept'), kept_rows)
