"""DeleteApplication / purge crash when a relation's target is deleted first.

Property C15: purging a stale app (or applying DeleteApplication) drops
exactly the tables owned by the app, for every project layout with relations
between models and between apps, and for every choice of apps purged.

On the unmodified code, the models of an app are deleted one at a time, in
the order they're stored in the signature, and each deletion is simulated
(removing the model from the signature) before the next model is looked at.
Building the mock model for the next deletion resolves every ForeignKey and
ManyToManyField target in that already-mutated signature, so as soon as a
relation's target has been deleted before the model that points at it, the
whole operation dies with MissingSignatureError and nothing is dropped.

The target-before-referrer order is the natural one: a model can only name
another model class in a ForeignKey if that class was defined first, and an
app can only import another app's models if that app is listed earlier in
INSTALLED_APPS (which is the order apps are stored in the signature).
"""

from __future__ import unicode_literals

from django.db import connection, connections, models

from django_evolution.evolve import Evolver
from django_evolution.models import Version
from django_evolution.mutations import DeleteApplication
from django_evolution.mutators import AppMutator
from django_evolution.signature import AppSignature
from django_evolution.tests.base_test_case import EvolutionTestCase
from django_evolution.tests.models import BaseTestModel
from django_evolution.tests.utils import execute_test_sql


# One app. The target of the relations comes first.
class OrdAnchor(BaseTestModel):
    value = models.IntegerField(default=1)

    class Meta:
        app_label = 'hunt_ord_one'


class OrdOwner(BaseTestModel):
    value = models.IntegerField(default=1)
    fk = models.ForeignKey(OrdAnchor, on_delete=models.CASCADE, null=True)
    m2m = models.ManyToManyField(OrdAnchor, related_name='+')

    class Meta:
        app_label = 'hunt_ord_one'


# One app, two models pointing at each other. No order of deletion can avoid
# deleting one relation target before its referrer.
class CycLeft(BaseTestModel):
    right = models.ForeignKey('hunt_ord_cyc.CycRight',
                              on_delete=models.CASCADE, null=True)

    class Meta:
        app_label = 'hunt_ord_cyc'


class CycRight(BaseTestModel):
    left = models.ForeignKey(CycLeft, on_delete=models.CASCADE, null=True)

    class Meta:
        app_label = 'hunt_ord_cyc'


# Two apps. hunt_ord_b depends on hunt_ord_a. A third app is kept.
class AppAThing(BaseTestModel):
    value = models.IntegerField(default=1)

    class Meta:
        app_label = 'hunt_ord_a'


class AppBThing(BaseTestModel):
    value = models.IntegerField(default=1)
    a_thing = models.ForeignKey(AppAThing, on_delete=models.CASCADE,
                                null=True)
    a_things = models.ManyToManyField(AppAThing, related_name='+')

    class Meta:
        app_label = 'hunt_ord_b'


class AppCThing(BaseTestModel):
    value = models.IntegerField(default=1)

    class Meta:
        app_label = 'hunt_ord_c'


def get_tables():
    conn = connections['default']

    with conn.cursor() as cursor:
        return set(
            info.name
            for info in conn.introspection.get_table_list(cursor)
        )


def get_rows(table_name):
    with connection.cursor() as cursor:
        cursor.execute('SELECT * FROM "%s" ORDER BY 1' % table_name)

        return cursor.fetchall()


class DeleteOrderTests(EvolutionTestCase):
    needs_evolution_models = True

    def setUp(self):
        super(DeleteOrderTests, self).setUp()

        self.tables_at_start = get_tables()
        self.created_tables = {}

    def tearDown(self):
        for table_name in get_tables() - self.tables_at_start:
            execute_test_sql(['DROP TABLE "%s";' % table_name])

        super(DeleteOrderTests, self).tearDown()

    def install_stale_apps(self, apps):
        """Create tables and stored signature entries for uninstalled apps.

        The tables created for each app (computed from the real schema
        editor) are recorded in ``self.created_tables``.
        """
        version = Version.objects.current_version()

        for app_label, app_models in apps:
            before = get_tables()

            with connection.schema_editor() as editor:
                for model in app_models:
                    editor.create_model(model)

            self.created_tables[app_label] = get_tables() - before

            app_sig = AppSignature(app_id=app_label)

            for model in app_models:
                app_sig.add_model(model)

            version.signature.add_app_sig(app_sig)

        version.save()

    def purge(self, app_labels):
        evolver = Evolver()

        for app_label in app_labels:
            evolver.queue_purge_app(app_label)

        evolver.evolve()

    def test_purge_app_with_target_model_stored_first(self):
        """Purging an app whose relation target is stored before the model
        pointing at it
        """
        self.install_stale_apps([
            ('hunt_ord_one', [OrdAnchor, OrdOwner]),
            ('hunt_ord_c', [AppCThing]),
        ])
        AppCThing.objects.create(value=42)

        self.assertEqual(len(self.created_tables['hunt_ord_one']), 3)

        before = get_tables()
        kept_rows = get_rows('hunt_ord_c_appcthing')

        self.purge(['hunt_ord_one'])

        self.assertEqual(before - get_tables(),
                         self.created_tables['hunt_ord_one'])
        self.assertEqual(get_rows('hunt_ord_c_appcthing'), kept_rows)

    def test_purge_app_with_relation_cycle(self):
        """Purging an app with two models pointing at each other"""
        self.install_stale_apps([
            ('hunt_ord_cyc', [CycLeft, CycRight]),
        ])

        before = get_tables()

        self.purge(['hunt_ord_cyc'])

        self.assertEqual(before - get_tables(),
                         self.created_tables['hunt_ord_cyc'])

    def test_purge_two_apps_with_dependency_stored_first(self):
        """Purging two apps, one depending on the other, stored in
        INSTALLED_APPS (dependency-first) order
        """
        self.install_stale_apps([
            ('hunt_ord_a', [AppAThing]),
            ('hunt_ord_b', [AppBThing]),
            ('hunt_ord_c', [AppCThing]),
        ])
        AppCThing.objects.create(value=42)

        before = get_tables()
        kept_rows = get_rows('hunt_ord_c_appcthing')

        # Same order as Evolver.queue_purge_old_apps() would use.
        self.assertEqual(
            [
                app_label
                for app_label in Evolver().initial_diff.deleted
                if app_label in ('hunt_ord_a', 'hunt_ord_b')
            ],
            ['hunt_ord_a', 'hunt_ord_b'])

        self.purge(['hunt_ord_a', 'hunt_ord_b'])

        self.assertEqual(
            before - get_tables(),
            (self.created_tables['hunt_ord_a'] |
             self.created_tables['hunt_ord_b']))
        self.assertEqual(get_rows('hunt_ord_c_appcthing'), kept_rows)

        stored_sig = Version.objects.current_version().signature
        self.assertEqual(
            [
                model_sig.model_name
                for model_sig in
                stored_sig.get_app_sig('hunt_ord_c').model_sigs
            ],
            ['AppCThing'])

    def test_delete_application_mutation_with_target_model_stored_first(self):
        """DeleteApplication through AppMutator, relation target stored first
        """
        self.install_stale_apps([
            ('hunt_ord_one', [OrdAnchor, OrdOwner]),
        ])

        evolver = Evolver()
        before = get_tables()

        app_mutator = AppMutator.from_evolver(evolver=evolver,
                                              app_label='hunt_ord_one')
        app_mutator.run_mutation(DeleteApplication())
        execute_test_sql(app_mutator.to_sql())

        self.assertEqual(before - get_tables(),
                         self.created_tables['hunt_ord_one'])
