from django.db import models
from django_evolution.compat import six
from django_evolution.mutations import ChangeMeta
from django_evolution.mutators import AppMutator
from django_evolution.tests.base_test_case import EvolutionTestCase
from django_evolution.tests.models import BaseTestModel
from django_evolution.tests.utils import ensure_test_db, execute_test_sql


class M(BaseTestModel):
    int_field1 = models.IntegerField()
    char_field1 = models.CharField(max_length=20)

    class Meta(BaseTestModel.Meta):
        indexes = [models.Index(fields=['int_field1'], name='keep_this_index',
                                include=['char_field1'])]


class T(EvolutionTestCase):
    default_base_model = M

    def _sql(self, new_value):
        self.test_database_state = self.database_state.clone()
        self.test_database_state.rescan_tables()
        sig = self.start_sig.clone()
        with ensure_test_db(model_entries=six.iteritems(self.start),
                            app_label='tests', database='default'):
            self.test_database_state.rescan_tables()
            am = AppMutator(app_label='tests', project_sig=sig,
                            database_state=self.test_database_state)
            am.run_mutations([ChangeMeta('TestModel', 'indexes', new_value)])
            return [str(s) for s in execute_test_sql(am.to_sql(),
                                                     database='default')]

    def test_same_indexes_any_key_order(self):
        keep_a = {'include': ['char_field1'], 'fields': ['int_field1'],
                  'name': 'keep_this_index'}
        keep_b = dict(sorted(keep_a.items()))      # as loaded from hint text
        new = {'fields': ['char_field1'], 'name': 'brand_new_index'}
        sql_a = self._sql([keep_a, new])
        sql_b = self._sql([keep_b, new])
        print(sql_a)
        print(sql_b)
        self.assertEqual(sql_a, sql_b)
        self.assertFalse(any('DROP INDEX' in s for s in sql_b))
