from __future__ import unicode_literals, print_function

import os

from django.db import DEFAULT_DB_ALIAS, models

from django_evolution.compat.apps import get_app
from django_evolution.compat.db import sql_create_app
from django_evolution.evolve import EvolveAppTask, Evolver
from django_evolution.models import Version, Evolution
from django_evolution.signature import AppSignature
from django_evolution.tests.base_test_case import (EvolutionTestCase,
                                                   MigrationsTestsMixin)
from django_evolution.tests.models import BaseTestModel
from django_evolution.tests.evolutions_app.models import EvolutionsAppTestModel
from django_evolution.tests.evolutions_app2.models import (
    EvolutionsApp2TestModel,
    EvolutionsApp2TestModel2)
from django_evolution.tests.utils import (execute_test_sql, replace_models)

from hunt_demo.sigharness import Recorder, check_lifecycle, repair_connection


class EvolverTestModel(BaseTestModel):
    value = models.CharField(max_length=100)


class ExploreB(MigrationsTestsMixin, EvolutionTestCase):
    default_base_model = EvolverTestModel
    sql_mapping_key = 'evolver'
    needs_evolution_models = True

    def _apps(self):
        return [
            get_app('evolutions_app'),
            get_app('evolutions_app2'),
            get_app('evolution_deps_app'),
            get_app('migrations_app'),
            get_app('migrations_app2'),
        ]

    def _reset(self):
        self.ensure_deleted_apps()
        from django.db import connection
        from django.db.migrations.recorder import MigrationRecorder
        MigrationRecorder(connection).migration_qs.filter(
            app__in=['migrations_app', 'migrations_app2']).delete()
        Evolution.objects.all().delete()
        Version.objects.all().delete()
        Evolver()

    def _setup_pre_upgrade(self):
        class InitialEvolutionsAppTestModel(models.Model):
            char_field = models.CharField(max_length=10)
            char_field2 = models.CharField(max_length=20)

            __module__ = 'django_evolution.tests.test_evolver'

            class Meta:
                db_table = EvolutionsAppTestModel._meta.db_table

        class InitialEvolutionsApp2TestModel(models.Model):
            char_field = models.CharField(max_length=10)

            __module__ = 'django_evolution.tests.test_evolver'

            class Meta:
                db_table = EvolutionsApp2TestModel._meta.db_table

        apps_to_models = {
            'evolutions_app': [
                ('EvolutionsAppTestModel', InitialEvolutionsAppTestModel),
            ],
            'evolutions_app2': [
                ('EvolutionsApp2TestModel', InitialEvolutionsApp2TestModel),
                ('EvolutionsApp2TestModel2', EvolutionsApp2TestModel2),
            ],
        }

        version = Version.objects.current_version()
        project_sig = version.signature

        database = DEFAULT_DB_ALIAS
        sql = []

        with replace_models(database_state=self.database_state,
                            apps_to_models=apps_to_models):
            for app in self._apps():
                project_sig.add_app_sig(AppSignature.from_app(
                    app,
                    database=database))

                sql += sql_create_app(app=app,
                                      db_name=database)

        execute_test_sql(sql,
                         database=database)
        version.save()

        self.record_evolutions(version,
                               [('evolutions_app', 'first_evolution')])
        self.record_applied_migrations([
            ('migrations_app', '0001_initial'),
        ])

    def _run_once(self, fail_at, upgrade):
        self._reset()

        if upgrade:
            self._setup_pre_upgrade()

        rec = Recorder(fail_at=fail_at)
        ok = True

        with rec:
            try:
                evolver = Evolver()

                for app in self._apps():
                    evolver.queue_evolve_app(app)

                evolver.evolve()
            except Exception as e:
                ok = False
                print('   raised: %r' % e)

        repair_connection()

        return rec, ok

    def _explore(self, upgrade):
        rec, ok = self._run_once(None, upgrade)
        print(rec.dump())
        print(check_lifecycle(rec.log, ok))
        n = rec.num_statements

        for i in range(n):
            print('==== fail at', i)
            rec, ok = self._run_once(i, upgrade)

            if os.environ.get('VERBOSE'):
                print(rec.dump())
            else:
                print(rec.signal_names())

            print('PROBLEMS', check_lifecycle(rec.log, ok))

    def test_new(self):
        self._explore(False)

    def test_upgrade(self):
        self._explore(True)
