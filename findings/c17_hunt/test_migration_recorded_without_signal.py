"""C17 demonstration: migrations are recorded as applied outside of (and
without) their applying_migration/applied_migration signals.

Property: "every applying-migration ... signal is followed by its applied
counterpart unless the run fails in between.  The ... migrations ... they
carry are exactly those whose SQL was executed between the paired signals."

History: the five built-in test apps (evolutions_app, evolutions_app2,
evolution_deps_app, migrations_app, migrations_app2) are installed into a
database that only has the django_evolution baseline, with
``Evolver().queue_evolve_app(...); evolve()``.

``EvolveAppTask._build_migrations_info()`` puts the *pre-stage* migration
targets (the not yet applied ``0001_initial`` migrations) into
``MigrationLoader.extra_applied_migrations`` so that they are left out of the
post-stage plan.  That list is, however, also the list of migrations that
``EvolveAppTask.execute_tasks()`` writes to ``django_migrations`` as its very
first statement ("record the migrations a MoveToDjangoMigrations mutation
marked as applied").  So the run starts by recording
``migrations_app.0001_initial`` and ``migrations_app2.0001_initial`` as
applied before any of their SQL ran and before (or entirely without) their
``applying_migration`` signal:

* in a successful run each of them ends up recorded twice (once up-front,
  once by Django's executor between the paired signals);
* in a run that fails later, the database says they are applied although no
  ``applied_migration`` was ever emitted for them -- and a retry refuses to
  start (``MigrationHistoryError``) or skips the CREATE TABLE.

Everything asserted below is computed from the real code: the recorded
rows are read back from ``django_migrations`` and compared with the
migrations carried by the ``applied_migration`` signals of the same run.
"""

from __future__ import print_function, unicode_literals

from collections import Counter

from django.db import connection
from django.db.migrations.recorder import MigrationRecorder

from django_evolution.compat.apps import get_app
from django_evolution.evolve import Evolver
from django_evolution.models import Evolution, Version
from django_evolution.tests.base_test_case import (EvolutionTestCase,
                                                   MigrationsTestsMixin)

from hunt_demo.sigharness import Recorder, is_write_sql, repair_connection


APP_LABELS = [
    'evolutions_app',
    'evolutions_app2',
    'evolution_deps_app',
    'migrations_app',
    'migrations_app2',
]

MIGRATION_APP_LABELS = ['migrations_app', 'migrations_app2']


class MigrationRecordedWithoutSignalTests(MigrationsTestsMixin,
                                          EvolutionTestCase):
    needs_evolution_models = True

    def setUp(self):
        super(MigrationRecordedWithoutSignalTests, self).setUp()
        self._reset()

    def tearDown(self):
        repair_connection()
        self._reset()
        super(MigrationRecordedWithoutSignalTests, self).tearDown()

    def _reset(self):
        self.ensure_deleted_apps()
        MigrationRecorder(connection).migration_qs.filter(
            app__in=MIGRATION_APP_LABELS).delete()
        Evolution.objects.all().delete()
        Version.objects.all().delete()
        Evolver()

    def _recorded(self):
        return list(
            MigrationRecorder(connection).migration_qs
            .filter(app__in=MIGRATION_APP_LABELS)
            .values_list('app', 'name'))

    def _run(self, fail_at=None):
        rec = Recorder(fail_at=fail_at)
        error = None

        with rec:
            try:
                evolver = Evolver()

                for app_label in APP_LABELS:
                    evolver.queue_evolve_app(get_app(app_label))

                evolver.evolve()
            except Exception as e:
                error = e

        repair_connection()

        return rec, error

    def _announced(self, rec):
        return [
            entry[2]['migration']
            for entry in rec.log
            if entry[0] == 'signal' and entry[1] == 'applied_migration'
        ]

    def test_successful_run_records_each_announced_migration_once(self):
        """A migration announced once must be recorded once"""
        self.assertEqual(self._recorded(), [])

        rec, error = self._run()
        print(rec.dump())

        self.assertIsNone(error)
        self.assertEqual(rec.signal_names()[-1], 'evolved')

        self.assertEqual(Counter(self._recorded()),
                         Counter(self._announced(rec)))

    def test_failed_run_records_only_announced_migrations(self):
        """After a failed run, only migrations whose applied_migration was
        emitted may be recorded as applied
        """
        # Find the first statement executed after the first
        # applying_migration signal of the fault-free run.
        rec, error = self._run()
        self.assertIsNone(error)

        index = -1
        fail_at = None
        seen_applying = False

        for entry in rec.log:
            if entry[0] == 'signal':
                if entry[1] == 'applying_migration':
                    seen_applying = True
            elif entry[0] == 'sql':
                index += 1

                if seen_applying:
                    fail_at = index
                    break

        self.assertIsNotNone(fail_at)

        self._reset()
        self.assertEqual(self._recorded(), [])

        rec, error = self._run(fail_at=fail_at)
        print(rec.dump())

        self.assertIsNotNone(error)
        self.assertEqual(rec.signal_names()[-1], 'evolving_failed')

        announced = set(self._announced(rec))
        recorded = set(self._recorded())

        self.assertEqual(
            recorded - announced, set(),
            'Recorded as applied without an applied_migration signal')

        # And the run can be repeated once the fault is gone.
        rec, error = self._run()
        print(rec.dump())

        self.assertIsNone(error, 'The retry failed: %r' % (error,))
        self.assertEqual(rec.signal_names()[-1], 'evolved')
