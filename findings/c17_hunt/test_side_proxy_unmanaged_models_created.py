"""Side finding (borderline C17: creating_models announces models that have
no table of their own).

``db_get_installable_models_for_app()`` treats every model of the app whose
table is missing as "to be created", including proxy models and unmanaged
models.  ``sql_create_models()`` then emits a CREATE TABLE for each: for a
proxy that is ``CREATE TABLE "<parent table>" ()`` (a syntax error, the install
fails), for an unmanaged model a table Django would never create.

Both sides are computed from the real code: the tables created between
creating_models and created_models are compared with the tables of the
announced models that Django itself would create
(``model._meta.can_migrate(connection)``).
"""

from __future__ import print_function, unicode_literals

import re

from django.db import connection, models

from django_evolution.compat.apps import get_app, register_app_models
from django_evolution.evolve import Evolver
from django_evolution.tests import models as evo_test
from django_evolution.tests.base_test_case import EvolutionTestCase
from django_evolution.tests.models import BaseTestModel
from django_evolution.tests.utils import execute_test_sql

from hunt_demo.sigharness import Recorder, repair_connection


class PlainModel(BaseTestModel):
    value = models.CharField(max_length=100)


class ProxyModel(PlainModel):
    class Meta:
        proxy = True
        app_label = 'tests'


class UnmanagedModel(BaseTestModel):
    value = models.CharField(max_length=100)

    class Meta:
        managed = False
        app_label = 'tests'
        db_table = 'tests_some_view'


class ProxyUnmanagedModelsCreatedTests(EvolutionTestCase):
    needs_evolution_models = True
    default_base_model = PlainModel
    default_model_name = 'PlainModel'

    def tearDown(self):
        repair_connection()
        execute_test_sql(['DROP TABLE IF EXISTS "tests_plainmodel"',
                          'DROP TABLE IF EXISTS "tests_some_view"'])
        super(ProxyUnmanagedModelsCreatedTests, self).tearDown()

    def _install(self, extra_models):
        register_app_models('tests', extra_models)

        rec = Recorder()
        error = None

        with rec:
            try:
                evolver = Evolver()
                evolver.queue_evolve_app(evo_test)
                evolver.evolve()
            except Exception as e:
                error = e

        repair_connection()
        print(rec.dump())

        return rec, error

    def _check(self, rec, error):
        self.assertIsNone(error, 'The install failed: %r' % (error,))

        announced = []
        created_tables = []
        inside = False

        for entry in rec.log:
            if entry[0] == 'signal' and entry[1] == 'creating_models':
                announced += entry[2]['model_names']
                inside = True
            elif entry[0] == 'signal' and entry[1] == 'created_models':
                inside = False
            elif entry[0] == 'sql' and inside:
                m = re.match(r'CREATE TABLE "([^"]+)"', entry[1])

                if m:
                    created_tables.append(m.group(1))

        app_models = {
            model._meta.object_name: model
            for model in (PlainModel, ProxyModel, UnmanagedModel)
        }

        self.assertEqual(
            sorted(created_tables),
            sorted(
                app_models[name]._meta.db_table
                for name in announced
                if app_models[name]._meta.can_migrate(connection)
            ))
        self.assertEqual(
            [name for name in announced
             if not app_models[name]._meta.can_migrate(connection)],
            [])

    def test_with_proxy_model(self):
        """Installing an app with a proxy model"""
        self._check(*self._install([('proxymodel', ProxyModel)]))

    def test_with_unmanaged_model(self):
        """Installing an app with an unmanaged model"""
        self._check(*self._install([('unmanagedmodel', UnmanagedModel)]))
