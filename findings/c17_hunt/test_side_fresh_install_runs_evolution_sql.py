"""Side finding (not a C17 violation: the signals are truthful here).

Installing an app for the first time creates its tables in their final form
and records its whole evolution sequence as applied.  No evolution SQL may
run.  When the sequence contains a mutation without a ``model_name``
(``SQLMutation``), its SQL is executed right after the tables were created.

Both sides are computed from the real code: the same app is installed once
with its own (model based) evolution sequence and once with a
project-provided sequence that adds the same column through an SQLMutation;
both installs must produce the same signals.
"""

from __future__ import print_function, unicode_literals

from django_evolution.compat.apps import get_app
from django_evolution.evolve import Evolver
from django_evolution.models import Evolution, Version
from django_evolution.tests.base_test_case import EvolutionTestCase

from hunt_demo.sigharness import Recorder, repair_connection


class FreshInstallRunsEvolutionSQLTests(EvolutionTestCase):
    needs_evolution_models = True

    def tearDown(self):
        repair_connection()
        super(FreshInstallRunsEvolutionSQLTests, self).tearDown()

    def _install(self):
        self.ensure_deleted_apps()
        Evolution.objects.all().delete()
        Version.objects.all().delete()
        Evolver()

        rec = Recorder()
        error = None

        with rec:
            try:
                evolver = Evolver()
                evolver.queue_evolve_app(get_app('evolutions_app'))
                evolver.evolve()
            except Exception as e:
                error = e

        repair_connection()
        print(rec.dump())

        return rec, error

    def test_fresh_install_with_sql_mutation(self):
        """A fresh install must not execute the SQL of the evolutions it
        records as applied
        """
        rec1, error1 = self._install()
        self.assertIsNone(error1)
        self.assertNotIn('applying_evolution', rec1.signal_names())

        new_settings = {
            'CUSTOM_EVOLUTIONS': {
                'django_evolution.tests.evolutions_app':
                    'hunt_demo.evos_sql',
            },
        }

        with self.settings(DJANGO_EVOLUTION=new_settings):
            rec2, error2 = self._install()

        self.assertIsNone(error2, 'The fresh install failed: %r' % (error2,))
        self.assertEqual(rec2.signal_names(), rec1.signal_names())
