"""Shared helpers for the C17 (lifecycle signals) demonstrations.

Records every public django_evolution signal and every SQL statement sent
to the database (through Django's ``connection.execute_wrapper``), in one
interleaved log, and can inject a failure at the N-th statement.
"""

from __future__ import unicode_literals

from contextlib import contextmanager

from django.db import connections
from django.db.utils import OperationalError

from django_evolution import signals as evo_signals


SIGNAL_NAMES = [
    'evolving', 'evolved', 'evolving_failed',
    'applying_evolution', 'applied_evolution',
    'applying_migration', 'applied_migration',
    'creating_models', 'created_models',
]


class InjectedFault(OperationalError):
    pass


class Recorder(object):
    def __init__(self, database='default', fail_at=None, writes_only=True):
        self.log = []
        self.writes_only = writes_only
        self.database = database
        self.fail_at = fail_at
        self.num_statements = 0
        self._handlers = []

    # -- signals ----------------------------------------------------------
    def _make_handler(self, name):
        def handler(sender, **kwargs):
            payload = {}

            if 'evolutions' in kwargs:
                payload['evolutions'] = [
                    (e.app_label, e.label) for e in kwargs['evolutions']
                ]

            if 'task' in kwargs:
                payload['app_label'] = kwargs['task'].app_label

            if 'migration' in kwargs:
                m = kwargs['migration']
                payload['migration'] = (m.app_label, m.name)

            if 'app_label' in kwargs:
                payload['app_label'] = kwargs['app_label']

            if 'model_names' in kwargs:
                payload['model_names'] = list(kwargs['model_names'])

            if 'exception' in kwargs:
                payload['exception'] = kwargs['exception']

            payload['sender'] = sender
            self.log.append(('signal', name, payload))

        return handler

    # -- SQL --------------------------------------------------------------
    def _wrapper(self, execute, sql, params, many, context):
        if self.writes_only and not is_write_sql(sql):
            return execute(sql, params, many, context)

        index = self.num_statements
        self.num_statements += 1

        if self.fail_at is not None and index == self.fail_at:
            self.log.append(('sql-failed', sql, params))
            raise InjectedFault('injected failure at statement %d: %s'
                                % (index, sql))

        self.log.append(('sql', sql, params))

        return execute(sql, params, many, context)

    def __enter__(self):
        for name in SIGNAL_NAMES:
            handler = self._make_handler(name)
            self._handlers.append((name, handler))
            getattr(evo_signals, name).connect(handler)

        self._cm = connections[self.database].execute_wrapper(self._wrapper)
        self._cm.__enter__()

        return self

    def __exit__(self, *args):
        self._cm.__exit__(*args)

        for name, handler in self._handlers:
            getattr(evo_signals, name).disconnect(handler)

        self._handlers = []

    # -- convenience -----------------------------------------------------
    def signal_names(self):
        return [entry[1] for entry in self.log if entry[0] == 'signal']

    def dump(self):
        lines = []

        for entry in self.log:
            if entry[0] == 'signal':
                payload = dict(entry[2])
                payload.pop('sender', None)
                lines.append('SIGNAL %s %r' % (entry[1], payload))
            else:
                lines.append(('   %s %s %r' % (entry[0].upper(), entry[1],
                                               entry[2]))[:220])

        return '\n'.join(lines)


def is_write_sql(sql):
    s = sql.lstrip().upper()

    return not s.startswith(('SELECT', 'PRAGMA', 'SAVEPOINT', 'RELEASE',
                             'BEGIN', 'COMMIT', 'ROLLBACK'))


def is_schema_sql(sql):
    s = sql.lstrip().upper()

    return s.startswith(('CREATE ', 'ALTER ', 'DROP ', 'UPDATE ',
                         'INSERT ', 'DELETE '))


def check_lifecycle(log, returned_normally):
    """Return a list of violations of the paired-lifecycle property."""
    problems = []
    names = [e[1] for e in log if e[0] == 'signal']

    n_evolving = names.count('evolving')
    n_evolved = names.count('evolved')
    n_failed = names.count('evolving_failed')

    if n_evolving > 1:
        problems.append('evolving emitted %d times' % n_evolving)

    if n_evolved + n_failed != n_evolving:
        problems.append('evolving=%d but evolved=%d evolving_failed=%d'
                        % (n_evolving, n_evolved, n_failed))

    if returned_normally and n_evolving and n_evolved != 1:
        problems.append('run returned normally but evolved=%d' % n_evolved)

    if not returned_normally and n_evolved:
        problems.append('run raised but evolved was emitted')

    # Nothing may be written before evolving.
    seen_evolving = False

    for entry in log:
        if entry[0] == 'signal' and entry[1] == 'evolving':
            seen_evolving = True
        elif (entry[0] == 'sql' and not seen_evolving and
              is_schema_sql(entry[1])):
            problems.append('write before evolving: %s' % entry[1])
        elif (entry[0] == 'signal' and not seen_evolving and
              n_evolving):
            problems.append('signal %s before evolving' % entry[1])

    # Pairing of the inner signals.
    pairs = {
        'applying_evolution': 'applied_evolution',
        'applying_migration': 'applied_migration',
    }

    open_sig = None

    for entry in log:
        if entry[0] != 'signal':
            continue

        name = entry[1]
        payload = dict(entry[2])
        payload.pop('sender', None)

        if name in pairs:
            if open_sig is not None:
                problems.append('%s while %s still open' % (name,
                                                            open_sig[0]))

            open_sig = (name, payload)
        elif name in pairs.values():
            if (open_sig is None or pairs[open_sig[0]] != name or
                open_sig[1] != payload):
                problems.append('unmatched %s %r' % (name, payload))

            open_sig = None

    if open_sig is not None and returned_normally:
        problems.append('%s never closed in a successful run'
                        % open_sig[0])

    return problems


def repair_connection(database='default'):
    """Get the connection out of any transaction state a failed run left.

    Django's SQLite schema editor does not leave its atomic block when the
    migration inside it failed (its __exit__ raises first), so a failed run
    can leave the connection inside a broken atomic block. That is outside
    django_evolution; undo it so the next run starts clean.
    """
    connection = connections[database]

    if connection.in_atomic_block or connection.needs_rollback:
        connection.savepoint_ids = []
        connection.atomic_blocks = []
        connection.in_atomic_block = False
        connection.needs_rollback = False
        connection.commit_on_exit = True
        connection.connection.rollback()
        connection.set_autocommit(True)

    connection.enable_constraint_checking()
