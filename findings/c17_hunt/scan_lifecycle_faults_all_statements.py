from __future__ import unicode_literals, print_function
import os
from hunt_demo import scan_lifecycle_faults as explore_b
from hunt_demo.sigharness import Recorder, check_lifecycle, repair_connection
from django_evolution.evolve import Evolver


class ExploreF(explore_b.ExploreB):
    def test_new(self):
        pass

    def test_upgrade(self):
        pass

    def _run_all(self, fail_at, upgrade):
        self._reset()
        if upgrade:
            self._setup_pre_upgrade()
        rec = Recorder(fail_at=fail_at, writes_only=False)
        ok = True
        err = None
        with rec:
            try:
                evolver = Evolver()
                for app in self._apps():
                    evolver.queue_evolve_app(app)
                evolver.evolve()
            except Exception as e:
                ok = False
                err = e
        repair_connection()
        return rec, ok, err

    def _scan(self, upgrade):
        rec0, ok, err = self._run_all(None, upgrade)
        assert ok, repr(err)
        base = rec0.signal_names()
        n = rec0.num_statements
        print('statements', n)
        for i in range(n):
            rec, ok, err = self._run_all(i, upgrade)
            probs = check_lifecycle(rec.log, ok)
            failed_stmt = [e for e in rec.log if e[0] == 'sql-failed']
            names = rec.signal_names()
            flag = ''
            if ok:
                flag = 'SWALLOWED'
            if probs or ok:
                print(i, flag, probs, (failed_stmt[0][1][:100] if failed_stmt else None), names if names != base else 'same-as-base')

    def test_scan_upgrade(self):
        self._scan(True)

    def test_scan_new(self):
        self._scan(False)
