"""C17 demonstration: the database is changed before ``evolving`` is emitted.

Property: "a run emits evolving at most once, BEFORE ANY CHANGE IS MADE".

History: a database that has never been touched by Django's migration
framework (no ``django_migrations`` table -- the classic database that
django_evolution upgrades from Django <= 1.6), with the django_evolution
baseline installed.  One app (``evolutions_app``) is installed with
``Evolver().queue_evolve_app(...).evolve()``.

``MigrationList.from_database()`` -- a pure *read* helper -- calls
``MigrationRecorder.ensure_schema()``, which executes ``CREATE TABLE
"django_migrations"``.  It is reached from ``Evolver.__init__``
(ProjectSignature.from_database -> AppSignature.from_app ->
get_app_upgrade_info) and from ``EvolveAppTask.prepare_tasks``
(_build_migrations_info), i.e. while the run is still being *prepared*, before
``evolving.send()``.  The same happens for a pure preview
(``Evolver(); evolver.diff_evolutions()``, what ``evolve`` without
``--execute`` does), where no ``evolving`` is ever emitted.

Both sides are taken from the real code: every statement the run sends to
the database and every signal it emits are recorded in one interleaved log
and the position of the first write is compared with the position of the
``evolving`` signal.
"""

from __future__ import print_function, unicode_literals

from django.db import connection
from django.db.migrations.recorder import MigrationRecorder

from django_evolution.compat.apps import get_app
from django_evolution.compat.db import sql_delete
from django_evolution.evolve import Evolver
from django_evolution.models import Evolution
from django_evolution.tests.base_test_case import EvolutionTestCase
from django_evolution.tests.utils import execute_test_sql

from hunt_demo.sigharness import (Recorder, is_write_sql,
                                  repair_connection)


class SchemaChangeBeforeEvolvingTests(EvolutionTestCase):
    needs_evolution_models = True

    def setUp(self):
        super(SchemaChangeBeforeEvolvingTests, self).setUp()

        # Remember the migration history of the test database and remove
        # the table, producing a pre-migrations database.
        self.recorder = MigrationRecorder(connection)
        self.saved_rows = list(
            self.recorder.migration_qs.values_list('app', 'name', 'applied'))
        execute_test_sql(['DROP TABLE "django_migrations"'])
        self.assertFalse(MigrationRecorder(connection).has_table())

    def tearDown(self):
        repair_connection()

        recorder = MigrationRecorder(connection)
        recorder.ensure_schema()
        recorder.migration_qs.all().delete()
        recorder.migration_qs.bulk_create(
            recorder.Migration(app=app, name=name, applied=applied)
            for app, name, applied in self.saved_rows
        )

        sql = sql_delete(get_app('evolutions_app'))

        if sql:
            execute_test_sql(sql)

        Evolution.objects.filter(app_label='evolutions_app').delete()

        super(SchemaChangeBeforeEvolvingTests, self).tearDown()

    def test_upgrade_run_changes_database_before_evolving(self):
        """The first change of an upgrade run must come after `evolving`"""
        with Recorder() as rec:
            evolver = Evolver()
            evolver.queue_evolve_app(get_app('evolutions_app'))
            evolver.evolve()

        print(rec.dump())

        kinds = [
            ('evolving' if entry[0] == 'signal' and entry[1] == 'evolving'
             else 'write' if entry[0] == 'sql' and is_write_sql(entry[1])
             else None)
            for entry in rec.log
        ]

        self.assertEqual(kinds.count('evolving'), 1)
        self.assertIn('write', kinds)

        first_write = kinds.index('write')
        evolving_at = kinds.index('evolving')

        self.assertGreater(
            first_write, evolving_at,
            'The run changed the database before emitting `evolving`: %s'
            % (rec.log[first_write][1],))

    def test_preview_changes_database(self):
        """A preview (no evolve(), no signals) must not change the database
        """
        with Recorder() as rec:
            evolver = Evolver()
            evolver.queue_evolve_app(get_app('evolutions_app'))
            evolver.diff_evolutions()
            list(evolver.iter_evolution_content())

        print(rec.dump())

        self.assertEqual(rec.signal_names(), [])
        self.assertEqual(
            [entry[1] for entry in rec.log
             if entry[0] == 'sql' and is_write_sql(entry[1])],
            [],
            'A run that emitted no signal at all changed the database')
