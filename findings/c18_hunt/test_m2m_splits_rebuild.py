"""C18 demonstration: a ManyToManyField addition/deletion in the middle of a
run of field additions/deletions/changes on one model splits the run into
two table rebuilds on SQLite.

Adding or deleting a ManyToManyField never touches the model's own table (it
only creates/drops the through table), yet it is queued on the ModelMutator
as an opaque 'sql' operation, which is not in
``BaseEvolutionOperations.mergeable_ops``. The operations before and after it
therefore land in two different ``SQLiteAlterTableSQLResult`` objects and the
model's table is rewritten twice in one optimised run.

Both sides are computed from the real code: the optimised run of the full
list, the one-at-a-time run, and (as a control) the optimised run of the same
list with the ManyToManyField mutation moved to the end, which is
schema-equivalent and gives a single rebuild.
"""

from __future__ import print_function, unicode_literals

import os
import sys

from django.db import models

from django_evolution.diff import Diff
from django_evolution.mutations import AddField, ChangeField, DeleteField
from django_evolution.tests.base_test_case import EvolutionTestCase
from django_evolution.tests.models import BaseTestModel

sys.path.insert(0, os.path.dirname(__file__))
from _harness import RebuildCountMixin  # noqa


class C18M2MAnchor(BaseTestModel):
    value = models.IntegerField()


class C18M2MBase(BaseTestModel):
    char_field = models.CharField(max_length=20)
    int_field = models.IntegerField()
    m2m_field = models.ManyToManyField(C18M2MAnchor, related_name='+')


TABLE = 'tests_testmodel'


class M2MSplitsRebuildTests(RebuildCountMixin, EvolutionTestCase):
    default_base_model = C18M2MBase
    default_pre_extra_models = [('Anchor', C18M2MAnchor)]

    def _check(self, before, m2m_mutation, after):
        evolutions = [before, [m2m_mutation], after]
        control = [before, after, [m2m_mutation]]

        batched, single, batched_sql, _single_sql = \
            self.rebuild_counts(evolutions)
        control_batched = self.rebuild_counts(control)[0]

        print()
        print('optimised run     :', batched)
        print('one at a time     :', single)
        print('control (m2m last):', control_batched)
        print('\n'.join('    %s' % (s,) for s in batched_sql))

        # The control shows that the same changes need one rebuild.
        self.assertEqual(control_batched.get(TABLE), 1)

        # Never more than one at a time.
        self.assertLessEqual(batched.get(TABLE, 0), single.get(TABLE, 0))

        # The property: one run of consecutive additions/deletions/changes
        # on one model, spread over three evolutions => one rebuild.
        self.assertEqual(
            batched.get(TABLE), 1,
            'The table %s was rebuilt %s times in one optimised run'
            % (TABLE, batched.get(TABLE)))

    def test_add_m2m_between_add_fields(self):
        """AddField, AddField(ManyToManyField), AddField => one rebuild"""
        self._check(
            [AddField('TestModel', 'added1', models.IntegerField, null=True)],
            AddField('TestModel', 'added_m2m', models.ManyToManyField,
                     related_model='tests.Anchor'),
            [AddField('TestModel', 'added2', models.IntegerField, null=True)])

    def test_delete_m2m_between_changes(self):
        """ChangeField, DeleteField(ManyToManyField), DeleteField => one
        rebuild
        """
        self._check(
            [ChangeField('TestModel', 'char_field', max_length=40)],
            DeleteField('TestModel', 'm2m_field'),
            [DeleteField('TestModel', 'int_field')])

    def test_hinted_evolution_adding_m2m_and_deleting_field(self):
        """Hinted evolution (adds a column and a ManyToManyField, deletes a
        column) => one rebuild
        """
        class DestModel(BaseTestModel):
            char_field = models.CharField(max_length=20)
            added1 = models.IntegerField(null=True)
            m2m_field = models.ManyToManyField(C18M2MAnchor,
                                               related_name='+')
            added_m2m = models.ManyToManyField(C18M2MAnchor,
                                               related_name='+')

        end, end_sig = self.make_end_signatures(DestModel, 'TestModel')
        hinted = Diff(self.start_sig, end_sig).evolution()['tests']
        print()
        print('hinted evolution:', [str(m) for m in hinted])

        # Put the starting models back in place.
        self.set_base_model(C18M2MBase,
                            pre_extra_models=[('Anchor', C18M2MAnchor)])

        batched, single, batched_sql, _single_sql = \
            self.rebuild_counts([hinted])

        print('optimised run     :', batched)
        print('one at a time     :', single)

        self.assertLessEqual(batched.get(TABLE, 0), single.get(TABLE, 0))
        self.assertEqual(
            batched.get(TABLE), 1,
            'The table %s was rebuilt %s times in one optimised run of '
            'the hinted evolution' % (TABLE, batched.get(TABLE)))
