from __future__ import print_function, unicode_literals

import itertools
import os
import random
import sys

from django.db import models
from django.db.models import Q

from django_evolution.mutations import (AddField, ChangeField, ChangeMeta,
                                        DeleteField, RenameField)
from django_evolution.tests.base_test_case import EvolutionTestCase
from django_evolution.tests.models import BaseTestModel

sys.path.insert(0, os.path.dirname(__file__))
from _harness import RebuildCountMixin  # noqa


class Anchor(BaseTestModel):
    value = models.IntegerField()


class Other(BaseTestModel):
    num = models.IntegerField()
    name = models.CharField(max_length=10)


class Base(BaseTestModel):
    my_id = models.AutoField(primary_key=True)
    char_field = models.CharField(max_length=20)
    int_field = models.IntegerField()
    idx_field = models.IntegerField(db_index=True)
    uniq_field = models.CharField(max_length=10, unique=True)
    dec_field = models.DecimalField(max_digits=10, decimal_places=2)
    fk_field = models.ForeignKey(Anchor, on_delete=models.CASCADE)
    m2m_field = models.ManyToManyField(Anchor, related_name='+')
    m2m_custom = models.ManyToManyField(Anchor, related_name='+',
                                        db_table='tests_m2m_custom')


class Child(Base):
    child_val = models.IntegerField()
    child_name = models.CharField(max_length=10, db_column='custom_col')

    class Meta(BaseTestModel.Meta):
        db_table = 'custom_child_table'


M = 'TestModel'

POOL = [
    ('add_int', lambda: AddField(M, 'a_int', models.IntegerField, null=True)),
    ('add_char', lambda: AddField(M, 'a_char', models.CharField,
                                  max_length=5, initial='x')),
    ('add_fk', lambda: AddField(M, 'a_fk', models.ForeignKey, null=True,
                                related_model='tests.Anchor')),
    ('add_m2m', lambda: AddField(M, 'a_m2m', models.ManyToManyField,
                                 related_model='tests.Anchor')),
    ('add_idx', lambda: AddField(M, 'a_idx', models.IntegerField, null=True,
                                 db_index=True)),
    ('add_uniq', lambda: AddField(M, 'a_uniq', models.IntegerField, null=True,
                                  unique=True)),
    ('del_int', lambda: DeleteField(M, 'int_field')),
    ('del_char', lambda: DeleteField(M, 'char_field')),
    ('del_idx', lambda: DeleteField(M, 'idx_field')),
    ('del_uniq', lambda: DeleteField(M, 'uniq_field')),
    ('del_fk', lambda: DeleteField(M, 'fk_field')),
    ('del_m2m', lambda: DeleteField(M, 'm2m_field')),
    ('chg_maxlen', lambda: ChangeField(M, 'char_field', max_length=40)),
    ('chg_null', lambda: ChangeField(M, 'char_field', null=True)),
    ('chg_null_back', lambda: ChangeField(M, 'char_field', null=False,
                                          initial='')),
    ('chg_idx_on', lambda: ChangeField(M, 'int_field', db_index=True)),
    ('chg_idx_off', lambda: ChangeField(M, 'idx_field', db_index=False)),
    ('chg_uniq_on', lambda: ChangeField(M, 'char_field', unique=True)),
    ('chg_uniq_off', lambda: ChangeField(M, 'uniq_field', unique=False)),
    ('chg_dec', lambda: ChangeField(M, 'dec_field', max_digits=12)),
    ('chg_m2m_tbl', lambda: ChangeField(M, 'm2m_custom',
                                        db_table='tests_custom_m2m')),
    ('chg_fk_null', lambda: ChangeField(M, 'fk_field', null=True)),
    ('meta_ut_set', lambda: ChangeMeta(M, 'unique_together',
                                       [('char_field', 'dec_field')])),
    ('meta_ut_clear', lambda: ChangeMeta(M, 'unique_together', [])),
    ('meta_it_set', lambda: ChangeMeta(M, 'index_together',
                                       [('char_field', 'dec_field')])),
    ('meta_idx_set', lambda: ChangeMeta(M, 'indexes', [
        {'name': 'my_idx', 'fields': ['dec_field']}])),
    ('meta_con_set', lambda: ChangeMeta(M, 'constraints', [
        {'name': 'my_con', 'type': models.UniqueConstraint,
         'fields': ('dec_field',)}])),
    ('meta_con_chk', lambda: ChangeMeta(M, 'constraints', [
        {'name': 'my_chk', 'type': models.CheckConstraint,
         'check': Q(dec_field__gte=0)}])),
    ('meta_con_clear', lambda: ChangeMeta(M, 'constraints', [])),
    ('ren_int', lambda: RenameField(M, 'int_field', 'renamed_int')),
    ('ren_same', lambda: RenameField(M, 'dec_field', 'renamed_dec',
                                     db_column='dec_field')),
    ('typ_char', lambda: ChangeField(M, 'char_field',
                                     field_type=models.TextField)),
    ('c_add', lambda: AddField('Child', 'c_int', models.IntegerField,
                               null=True)),
    ('c_del', lambda: DeleteField('Child', 'child_val')),
    ('c_chg', lambda: ChangeField('Child', 'child_name', max_length=30)),
    ('c_chg2', lambda: ChangeField('Child', 'child_val', null=True)),
    ('c_add_m2m', lambda: AddField('Child', 'c_m2m', models.ManyToManyField,
                                   related_model='tests.Anchor')),
    ('o_add_fk', lambda: AddField('Other', 'o_fk', models.ForeignKey,
                                  null=True,
                                  related_model='tests.TestModel')),
    ('o_add', lambda: AddField('Other', 'o_int', models.IntegerField,
                               null=True)),
    ('o_del', lambda: DeleteField('Other', 'num')),
    ('o_chg', lambda: ChangeField('Other', 'name', max_length=30)),
]


class Explore(RebuildCountMixin, EvolutionTestCase):
    default_base_model = Base
    default_pre_extra_models = [('Anchor', Anchor)]
    default_extra_models = [('Other', Other), ('Child', Child)]

    def _valid(self, muts):
        sig = self.start_sig.clone()
        state = self.database_state.clone()

        try:
            for m in muts:
                m.run_simulation(app_label='tests', project_sig=sig,
                                 database_state=state, database='default')
        except Exception:
            return False

        return True

    def _check(self, names, table_of):
        muts = [dict(POOL)[n]() for n in names]

        if not self._valid(muts):
            return None

        try:
            b, s, bsql, ssql = self.rebuild_counts([muts])
        except Exception as e:
            return ('ERROR', names, repr(e)[:300])

        problems = []

        for table in set(b) | set(s):
            if b.get(table, 0) > s.get(table, 0):
                problems.append(('MORE', table, b.get(table, 0),
                                 s.get(table, 0)))

            if (b.get(table, 0) > 1 and
                not any(n.startswith(('ren_', 'typ_')) for n in names)):
                # All mutations are of the batchable kinds; is there a
                # consecutive-run split for this table? After grouping by
                # model every table's mutations are consecutive.
                problems.append(('MULTI', table, b.get(table, 0),
                                 s.get(table, 0)))

        if problems:
            return ('VIOLATION', names, problems)

        return ('OK', names, b, s)

    def test_explore(self):
        n = int(os.environ.get('HUNT_LEN', '2'))
        limit = int(os.environ.get('HUNT_LIMIT', '0'))
        seed = int(os.environ.get('HUNT_SEED', '1'))
        names = [p[0] for p in POOL]
        if n <= 3:
            combos = list(itertools.product(names, repeat=n))

            if limit:
                random.Random(seed).shuffle(combos)
                combos = combos[:limit]
        else:
            rnd = random.Random(seed)
            combos = [
                tuple(rnd.sample(names, rnd.randint(4, n)))
                for i in range(limit)
            ]

        seen = {}
        nvalid = 0

        for combo in combos:
            if len(set(combo)) != len(combo):
                continue

            r = self._check(combo, None)

            if r is None:
                continue

            nvalid += 1

            if r[0] != 'OK':
                print(r)
                sys.stdout.flush()

        print('valid sequences checked:', nvalid)
