"""Shared helper for the C18 demonstrations (not a test module).

Computes, from the real code, the number of table rebuilds per table that
(a) one optimised run of a mutation list and (b) the same mutations applied
one at a time (one AppMutator per mutation, SQL executed in between) perform
on SQLite.  Both sides run against a real database created from the test's
base models.
"""

from __future__ import unicode_literals

import copy
import re
from collections import Counter

from django.db import connections

from django_evolution.compat import six
from django_evolution.mutators import AppMutator
from django_evolution.compat.apps import register_app_models
from django_evolution.compat.db import sql_create_app
from django_evolution.tests import models as evo_test
from django_evolution.tests.utils import execute_test_sql


TEMP_RE = re.compile(r'^ALTER TABLE "TEMP_TABLE" RENAME TO "([^"]+)";$')


def count_rebuilds(statements):
    """Return {table_name: number of rebuilds} for an executed SQL trace."""
    counts = Counter()
    pending = 0

    for statement in statements:
        if isinstance(statement, tuple):
            statement = statement[0]

        statement = six.text_type(statement)

        if statement.startswith('CREATE TABLE "TEMP_TABLE"'):
            pending += 1
        else:
            m = TEMP_RE.match(statement)

            if m:
                assert pending == 1, statements
                pending = 0
                counts[m.group(1)] += 1

    assert pending == 0
    return dict(counts)


class RebuildCountMixin(object):
    """Mixin for EvolutionTestCase subclasses."""

    def run_trace(self, evolutions, one_at_a_time, db_name='default'):
        """Apply ``evolutions`` (a list of lists of mutations).

        If ``one_at_a_time`` is set, every mutation gets its own AppMutator
        and its SQL is executed before the next one is processed. Otherwise
        all evolutions are concatenated (as the Evolver does for the pending
        evolutions of an app) and processed by a single AppMutator.
        """
        mutations = [
            mutation
            for evolution in evolutions
            for mutation in evolution
        ]

        if one_at_a_time:
            groups = [[mutation] for mutation in mutations]
        else:
            groups = [mutations]

        database_state = self.database_state.clone()
        test_sig = self.start_sig.clone()
        executed = []
        connection = connections[db_name]

        with connection.cursor() as cursor:
            before = set(
                connection.introspection.table_names(cursor))

        try:
            # The same steps as tests.utils.ensure_test_db(), but the
            # cleanup below drops whatever tables exist afterwards (the
            # mutations may add or drop many-to-many tables).
            register_app_models(app_label='tests',
                                model_infos=six.iteritems(self.start),
                                reset=True)
            execute_test_sql(sql_create_app(app=evo_test, db_name=db_name),
                             database=db_name)

            for group in groups:
                database_state.rescan_tables()

                app_mutator = AppMutator(app_label='tests',
                                         project_sig=test_sig,
                                         database_state=database_state,
                                         database=db_name)
                app_mutator.run_mutations(copy.deepcopy(group))
                executed += execute_test_sql(app_mutator.to_sql(),
                                             database=db_name)
        finally:
            with connection.cursor() as cursor:
                after = set(connection.introspection.table_names(cursor))

                for table_name in sorted(after - before):
                    cursor.execute('DROP TABLE "%s"' % table_name)

        return executed, test_sig

    def rebuild_counts(self, evolutions):
        """Return (optimised counts, one-at-a-time counts, traces)."""
        batched_sql, batched_sig = self.run_trace(evolutions, False)
        single_sql, single_sig = self.run_trace(evolutions, True)

        return (count_rebuilds(batched_sql), count_rebuilds(single_sql),
                batched_sql, single_sql)
