"""F-C02 witness: ChangeField(null=False, initial=<callable returning SQL
text>) on SQLite rebuilds the table selecting the literal for *every* row, so
existing non-NULL values of the column are overwritten."""
from django.db import models, connection
from django_evolution.compat import six
from django_evolution.mutations import ChangeField
from django_evolution.mutators import AppMutator
from django_evolution.tests.base_test_case import EvolutionTestCase
from django_evolution.tests.models import BaseTestModel
from django_evolution.tests.utils import ensure_test_db, execute_test_sql


class B(BaseTestModel):
    x = models.CharField(max_length=20, null=True)


class D(BaseTestModel):
    x = models.CharField(max_length=20, null=False)


def initial():
    return "'filled'"


class T(EvolutionTestCase):
    default_base_model = B

    def test_it(self):
        end, end_sig = self.make_end_signatures(D, 'TestModel')
        self.test_database_state = self.database_state.clone()
        test_sig = self.start_sig.clone()
        with ensure_test_db(model_entries=six.iteritems(self.start),
                            end_model_entries=six.iteritems(end),
                            app_label='tests', database='default'):
            cur = connection.cursor()
            cur.execute("INSERT INTO tests_testmodel (x) VALUES (NULL)")
            cur.execute("INSERT INTO tests_testmodel (x) VALUES ('keep me')")
            self.test_database_state.rescan_tables()
            m = AppMutator(app_label='tests', project_sig=test_sig,
                           database_state=self.test_database_state,
                           database='default')
            m.run_mutations([ChangeField('TestModel', 'x', null=False,
                                         initial=initial)])
            for s in execute_test_sql(m.to_sql(), database='default'):
                print(s)
            cur.execute('SELECT x FROM tests_testmodel ORDER BY id')
            rows = [r[0] for r in cur.fetchall()]
            print('ROWS', rows)
            self.assertEqual(rows, ['filled', 'keep me'])
