"""F-C16 witness: BaseModelMutation.is_mutable() never consults the router
when a database name is given: a model the router sends to 'default' is
reported mutable on 'db_multi', so its mutations are applied when db_multi
is evolved."""
import _boot  # noqa
from django.db import models, router
from django.test.utils import override_settings
from django_evolution.models import Version
from django_evolution.mutations import AddField


class ToDefault(object):
    def db_for_write(self, model, **hints):
        return 'default'

    def db_for_read(self, model, **hints):
        return 'default'

    def allow_migrate(self, db, app_label, **hints):
        return db == 'default'


with override_settings(DATABASE_ROUTERS=[ToDefault()]):
    router.routers = [ToDefault()]
    m = AddField('Version', 'extra', models.IntegerField, null=True)
    print('router.db_for_write(Version) =', router.db_for_write(Version))
    for db in ('default', 'db_multi'):
        print("is_mutable('django_evolution', ..., database=%r) = %r" % (
            db, m.is_mutable('django_evolution', None, None, db)))
    assert not m.is_mutable('django_evolution', None, None, 'db_multi')
