"""Bootstrap Django the way the repo's conftest does (witness scripts only;
never used by a registered check).  Runs in a throw-away directory so the
relative sqlite files of tests/settings.py do not litter /verif or /repo."""
import atexit, os, shutil, sys, tempfile
_d = tempfile.mkdtemp(prefix='w_')
os.chdir(_d)
atexit.register(shutil.rmtree, _d, True)
sys.path.insert(0, os.environ.get('W_REPO', '/repo'))
sys.path.insert(0, os.path.join(os.environ.get('W_REPO', '/repo'), 'tests'))
os.environ.setdefault('DJANGO_SETTINGS_MODULE', 'tests.settings')
import django
django.setup()
