"""ChangeMeta('constraints') silently skips constraints that can't be written
inline in CREATE TABLE (UniqueConstraint with a condition), which Django
creates as a partial unique index.

Demonstration for the property "Evolved database schema equals the schema of
freshly created models" (SQLite). The start models are created in the real
test database, the mutations are run through AppMutator with a DatabaseState
scanned from the real database (as the Evolver does), the generated SQL is
executed, and the resulting schema is introspected and compared (ignoring
index names) with the schema Django creates from scratch for the end models.

Run with:
    cd /tmp/hunt/c01 && /venv/bin/python -m pytest \
        hunt_demo/test_conditional_unique_constraint.py --rootdir=/tmp/hunt/c01 \
        -c /tmp/hunt/c01/setup.cfg -p no:cacheprovider -q -s
"""

from __future__ import print_function, unicode_literals

import re

from django.db import connections, models
from django.db.models import Q

from django_evolution.compat.apps import register_app_models
from django_evolution.compat.db import sql_create_app
from django_evolution.db.state import DatabaseState
from django_evolution.diff import Diff
from django_evolution.mutations import (AddField, ChangeField, ChangeMeta,
                                        DeleteField, DeleteModel,
                                        RenameField, RenameModel)
from django_evolution.mutators import AppMutator
from django_evolution.tests import models as evo_test
from django_evolution.tests.base_test_case import EvolutionTestCase
from django_evolution.tests.models import BaseTestModel
from django_evolution.tests.utils import (create_test_project_sig,
                                          execute_test_sql,
                                          register_models)


def _table_names(db):
    connection = connections[db]

    with connection.cursor() as cursor:
        return set(
            info.name
            for info in connection.introspection.get_table_list(cursor)
        )


def _snapshot(tables, db):
    """Return a description of the tables that doesn't depend on names of
    indexes/constraints: columns, indexes, foreign keys, checks."""
    connection = connections[db]
    qn = connection.ops.quote_name
    result = {}

    with connection.cursor() as cursor:
        for table in sorted(tables):
            cursor.execute('PRAGMA table_info(%s)' % qn(table))
            columns = sorted(
                # (name, type, NOT NULL, primary key)
                (row[1], row[2].lower(), bool(row[3]), bool(row[5]))
                for row in cursor.fetchall()
            )

            cursor.execute('PRAGMA index_list(%s)' % qn(table))
            indexes = []

            for row in cursor.fetchall():
                index_name, unique, origin = row[1], bool(row[2]), row[3]

                if origin == 'pk':
                    continue

                cursor.execute('PRAGMA index_xinfo(%s)' % qn(index_name))
                # (column name or None for an expression, descending)
                cols = tuple(
                    (r[2], bool(r[3]))
                    for r in cursor.fetchall()
                    if r[5]
                )

                cursor.execute(
                    "SELECT sql FROM sqlite_master WHERE type='index'"
                    " AND name=%s", [index_name])
                r = cursor.fetchone()
                m = re.search(r'\bWHERE\b(.*)$', (r and r[0]) or '',
                              re.S | re.I)

                indexes.append((cols, unique,
                                m.group(1).strip() if m else None))

            cursor.execute('PRAGMA foreign_key_list(%s)' % qn(table))
            # (column, referenced table, referenced column)
            fks = sorted(
                (row[3], row[2], row[4])
                for row in cursor.fetchall()
            )

            cursor.execute(
                "SELECT sql FROM sqlite_master WHERE type='table'"
                " AND name=%s", [table])
            table_sql = cursor.fetchone()[0]
            checks = sorted(
                re.sub(r'\s+', ' ', check)
                for check in re.findall(
                    r'CHECK\s*\((.*?)\)(?=\s*(?:,|\)$|DEFERR|CONSTRAINT))',
                    table_sql, re.S)
            )

            result[table] = {
                'columns': columns,
                'indexes': sorted(indexes, key=repr),
                'foreign keys': fks,
                'checks': checks,
            }

    return result


def _drop_tables(tables, db):
    connection = connections[db]

    with connection.cursor() as cursor:
        for table in tables:
            cursor.execute('DROP TABLE IF EXISTS %s'
                           % connection.ops.quote_name(table))


class SchemaCompareTestCase(EvolutionTestCase):
    """Runs evolutions for real and compares with a from-scratch schema."""

    def evolve_and_compare(self, start, end, mutations=None, db='default',
                           only_tables=None):
        """Evolve the ``start`` models and compare with fresh ``end`` models.

        ``start`` and ``end`` are lists of (registered name, model class).
        If ``mutations`` is None, the hinted evolution (the diff between the
        start and end signatures) is used.

        Returns the list of differences between the evolved database and a
        database created from scratch (empty if they're the same).
        """
        self._models_registered = True
        scratch_state = DatabaseState(db, scan=False)
        baseline = _table_names(db)

        try:
            # Register and create the start models.
            start_map = register_models(scratch_state, start, db_name=db)
            start_sig = create_test_project_sig(start)
            register_app_models('tests', list(start_map.items()), reset=True)
            execute_test_sql(sql_create_app(evo_test, db_name=db),
                             database=db)

            # Register the end models (what's in the app registry when the
            # real evolver runs).
            end_map = register_models(scratch_state, end, db_name=db)
            end_sig = create_test_project_sig(end)
            register_app_models('tests', list(end_map.items()), reset=True)

            if mutations is None:
                mutations = Diff(start_sig, end_sig).evolution()['tests']

            print()
            print('MUTATIONS: %r' % (mutations,))

            # Check that the sequence is simulation-valid, one mutation at
            # a time, and that it results in the end signature.
            sim_sig = start_sig.clone()

            for mutation in mutations:
                mutation.run_simulation(
                    app_label='tests',
                    project_sig=sim_sig,
                    database_state=DatabaseState(db, scan=False),
                    database=db)

            self.assertTrue(Diff(sim_sig, end_sig).is_empty())

            # The database state is scanned from the real database, as the
            # Evolver does.
            app_mutator = AppMutator(app_label='tests',
                                     project_sig=start_sig.clone(),
                                     database_state=DatabaseState(db),
                                     database=db)
            app_mutator.run_mutations(mutations)
            sql = app_mutator.to_sql()

            print('SQL:')

            for line in execute_test_sql(sql, database=db):
                print('    %s' % line)

            evolved_tables = _table_names(db) - baseline
            evolved = _snapshot(evolved_tables, db)
            _drop_tables(evolved_tables, db)

            # Create the end models from scratch.
            execute_test_sql(sql_create_app(evo_test, db_name=db),
                             database=db)
            fresh = _snapshot(_table_names(db) - baseline, db)
        finally:
            _drop_tables(_table_names(db) - baseline, db)

        problems = []

        for table in sorted(set(evolved) | set(fresh)):
            if only_tables is not None and table not in only_tables:
                continue

            if table not in evolved:
                problems.append('table %s is missing after the evolution'
                                % table)
            elif table not in fresh:
                problems.append('table %s is left over after the evolution'
                                % table)
            else:
                for key in sorted(fresh[table]):
                    if evolved[table][key] != fresh[table][key]:
                        problems.append(
                            '%s %s: evolved=%r fresh=%r'
                            % (table, key, evolved[table][key],
                               fresh[table][key]))

        for problem in problems:
            print('MISMATCH: %s' % problem)

        return problems

    def assertEvolvedEqualsFresh(self, *args, **kwargs):
        self.assertEqual(self.evolve_and_compare(*args, **kwargs), [])


class ConditionalUniqueConstraintTests(SchemaCompareTestCase):
    def test_add_conditional_unique_constraint(self):
        """ChangeMeta('constraints') adding UniqueConstraint(condition=...)
        """
        class Src(BaseTestModel):
            value1 = models.IntegerField()
            value2 = models.IntegerField()

        class Dst(BaseTestModel):
            value1 = models.IntegerField()
            value2 = models.IntegerField()

            class Meta(BaseTestModel.Meta):
                constraints = [
                    models.UniqueConstraint(fields=['value1'],
                                            condition=Q(value2__gt=0),
                                            name='value1_cond_uniq'),
                ]

        self.assertEvolvedEqualsFresh([('TestModel', Src)],
                                      [('TestModel', Dst)])
