"""After RenameModel, the columns of auto-created many-to-many tables that
are named after the renamed model keep the old model's name, so Django can
no longer use the relation (in either direction), while the same models
created from scratch work.
"""

from __future__ import unicode_literals

from django.db import connection, models

from django_evolution.compat import six
from django_evolution.compat.apps import register_app_models
from django_evolution.compat.db import sql_create_app
from django_evolution.mutations import RenameModel
from django_evolution.mutators import AppMutator
from django_evolution.tests import models as evo_test
from django_evolution.tests.base_test_case import EvolutionTestCase
from django_evolution.tests.models import BaseTestModel
from django_evolution.tests.utils import execute_test_sql


def get_test_schema():
    schema = {}

    with connection.cursor() as cursor:
        cursor.execute("SELECT name FROM sqlite_master WHERE type='table'"
                       " AND name LIKE 'tests_%'")

        for table_name in [row[0] for row in cursor.fetchall()]:
            cursor.execute('PRAGMA table_info("%s")' % table_name)
            schema[table_name] = sorted(row[1] for row in cursor.fetchall())

    return schema


def drop_test_tables():
    execute_test_sql(['DROP TABLE "%s";' % table_name
                      for table_name in get_test_schema()])


class RenameModelM2MColumnsTests(EvolutionTestCase):
    def test_m2m_pointing_at_renamed_model(self):
        """A ManyToManyField pointing at a renamed model is usable after
        the evolution, like it is on a fresh database
        """
        class TestModel(BaseTestModel):
            char_field = models.CharField(max_length=20)

        class RefModel(BaseTestModel):
            my_ref = models.ManyToManyField(TestModel)

        # The models after the rename (the table name is kept).
        class DestModel(BaseTestModel):
            char_field = models.CharField(max_length=20)

            class Meta(BaseTestModel.Meta):
                db_table = 'tests_testmodel'

        class EndRefModel(BaseTestModel):
            my_ref = models.ManyToManyField(DestModel)

            class Meta(BaseTestModel.Meta):
                db_table = 'tests_refmodel'

        EndRefModel.__name__ = str('RefModel')

        self.set_base_model(TestModel, extra_models=[('RefModel', RefModel)])
        start = self.start
        start_sig = self.start_sig

        self.extra_models = [('RefModel', EndRefModel)]
        end, end_sig = self.make_end_signatures(DestModel, 'DestModel')

        def use_relation():
            dest = DestModel.objects.create(char_field='x')
            ref = EndRefModel.objects.create()
            ref.my_ref.add(dest)

            return list(ref.my_ref.values_list('char_field', flat=True))

        # Side 1: the end models, created from scratch.
        register_app_models(app_label='tests',
                            model_infos=six.iteritems(end), reset=True)
        execute_test_sql(sql_create_app(app=evo_test, db_name='default'))

        try:
            fresh_schema = get_test_schema()
            self.assertEqual(use_relation(), ['x'])
        finally:
            drop_test_tables()

        # Side 2: the start models, evolved.
        register_app_models(app_label='tests',
                            model_infos=six.iteritems(start), reset=True)
        execute_test_sql(sql_create_app(app=evo_test, db_name='default'))

        try:
            test_sig = start_sig.clone()
            database_state = self.database_state.clone()
            database_state.rescan_tables()

            app_mutator = AppMutator(app_label='tests',
                                     project_sig=test_sig,
                                     database_state=database_state,
                                     database='default')
            app_mutator.run_mutations([
                RenameModel('TestModel', 'DestModel',
                            db_table='tests_testmodel'),
            ])
            execute_test_sql(app_mutator.to_sql())

            register_app_models(app_label='tests',
                                model_infos=six.iteritems(end), reset=True)

            self.assertEqual(get_test_schema(), fresh_schema)
            self.assertEqual(use_relation(), ['x'])
        finally:
            drop_test_tables()
