"""RenameField leaves Meta.unique_together / index_together / indexes naming
the old field, and the signature can no longer be evolved.

(Edge of the property: these are references from a model's Meta to its own
fields, not relations between models.)
"""

from __future__ import unicode_literals

import copy

from django.db import connection, models

from django_evolution.compat import six
from django_evolution.compat.apps import register_app_models
from django_evolution.compat.db import sql_create_app
from django_evolution.diff import Diff
from django_evolution.mutations import ChangeMeta, RenameField
from django_evolution.mutators import AppMutator
from django_evolution.tests import models as evo_test
from django_evolution.tests.base_test_case import EvolutionTestCase
from django_evolution.tests.models import BaseTestModel
from django_evolution.tests.utils import execute_test_sql


class MetaRefsAnchor(BaseTestModel):
    value = models.IntegerField()


class MetaRefsBaseModel(BaseTestModel):
    char_field = models.CharField(max_length=20)
    int_field = models.IntegerField()
    anchor = models.ForeignKey(MetaRefsAnchor, on_delete=models.CASCADE)

    class Meta(BaseTestModel.Meta):
        unique_together = [('char_field', 'anchor')]
        index_together = [('int_field', 'anchor')]
        indexes = [models.Index(fields=['anchor', '-int_field'],
                                name='metarefs_idx')]


def get_test_tables():
    with connection.cursor() as cursor:
        cursor.execute("SELECT name FROM sqlite_master WHERE type='table'"
                       " AND name LIKE 'tests_%'")

        return sorted(row[0] for row in cursor.fetchall())


class RenameFieldMetaRefsTests(EvolutionTestCase):
    def setUp(self):
        super(RenameFieldMetaRefsTests, self).setUp()

        self.set_base_model(
            MetaRefsBaseModel,
            pre_extra_models=[('MetaRefsAnchor', MetaRefsAnchor)])

    def make_dest_sig(self):
        class DestModel(BaseTestModel):
            char_field = models.CharField(max_length=20)
            int_field = models.IntegerField()
            owner = models.ForeignKey(MetaRefsAnchor,
                                      on_delete=models.CASCADE)

            class Meta(BaseTestModel.Meta):
                unique_together = [('char_field', 'owner')]
                index_together = [('int_field', 'owner')]
                indexes = [models.Index(fields=['owner', '-int_field'],
                                        name='metarefs_idx')]

        end, end_sig = self.make_end_signatures(DestModel, 'TestModel')

        return end_sig

    def test_signature_after_rename(self):
        """RenameField leaves no reference to the old field name in the
        model signature
        """
        end_sig = self.make_dest_sig()

        test_sig = self.start_sig.clone()
        RenameField('TestModel', 'anchor', 'owner').run_simulation(
            app_label='tests',
            project_sig=test_sig,
            database_state=self.database_state.clone(),
            database='default')

        model_sig = test_sig.get_app_sig('tests').get_model_sig('TestModel')
        field_names = set(field_sig.field_name
                          for field_sig in model_sig.field_sigs)
        referenced = set()

        for group in model_sig.unique_together:
            referenced.update(group)

        for group in model_sig.index_together:
            referenced.update(group)

        for index_sig in model_sig.index_sigs:
            referenced.update(name.lstrip('-')
                              for name in index_sig.fields or [])

        self.assertEqual(referenced - field_names, set())
        self.assertEqual(str(Diff(test_sig, end_sig)), '')

    def test_rename_then_change_meta(self):
        """RenameField + ChangeMeta('unique_together') naming the new field
        can be executed
        """
        register_app_models(app_label='tests',
                            model_infos=six.iteritems(self.start),
                            reset=True)
        execute_test_sql(sql_create_app(app=evo_test, db_name='default'))

        try:
            test_sig = self.start_sig.clone()
            database_state = self.database_state.clone()
            database_state.rescan_tables()

            app_mutator = AppMutator(app_label='tests',
                                     project_sig=test_sig,
                                     database_state=database_state,
                                     database='default')
            app_mutator.run_mutations([
                RenameField('TestModel', 'anchor', 'owner'),
                ChangeMeta('TestModel', 'unique_together',
                           [('char_field', 'owner')]),
            ])
            execute_test_sql(app_mutator.to_sql())

            self.assertEqual(
                test_sig.get_app_sig('tests').get_model_sig('TestModel')
                .unique_together,
                [('char_field', 'owner')])
        finally:
            execute_test_sql(['DROP TABLE "%s";' % table_name
                              for table_name in get_test_tables()])
