"""RenameAppLabel followed (in the same upgrade) by mutations that refer to
the app under its new label cannot be turned into SQL.

AppMutator.to_sql() throws away the evolved signature, goes back to the
original one and replays the simulations of the model mutations while it
generates their SQL. The RenameAppLabel itself is not replayed (and the app
label it switched to is not reset), so any relation to "<new label>.<Model>"
recorded by a replayed mutation names an app that doesn't exist in that
signature.
"""

from __future__ import unicode_literals

import copy

from django.db import models

from django_evolution.db.state import DatabaseState
from django_evolution.mutations import AddField, DeleteField, RenameAppLabel
from django_evolution.mutators import AppMutator
from django_evolution.signature import (AppSignature, FieldSignature,
                                        ModelSignature, ProjectSignature)
from django_evolution.tests.base_test_case import EvolutionTestCase


def make_model_sig(name, table, fields=()):
    model_sig = ModelSignature(model_name=name, table_name=table)
    model_sig.add_field_sig(FieldSignature(
        field_name='id', field_type=models.AutoField,
        field_attrs={'primary_key': True}))

    for field_name, field_type, related_model in fields:
        model_sig.add_field_sig(FieldSignature(
            field_name=field_name, field_type=field_type,
            related_model=related_model))

    return model_sig


def make_project_sig():
    project_sig = ProjectSignature()

    app_sig = AppSignature(app_id='critics')
    app_sig.add_model_sig(make_model_sig('Critic', 'critics_critic'))
    app_sig.add_model_sig(make_model_sig(
        'Award', 'critics_award',
        [('critic', models.ForeignKey, 'critics.Critic')]))
    project_sig.add_app_sig(app_sig)

    app_sig = AppSignature(app_id='books')
    app_sig.add_model_sig(make_model_sig(
        'Book', 'books_book',
        [('critics', models.ManyToManyField, 'critics.Critic')]))
    project_sig.add_app_sig(app_sig)

    return project_sig


def make_database_state():
    database_state = DatabaseState('default', scan=False)

    for table_name in ('critics_critic', 'critics_award', 'books_book',
                       'books_book_critics'):
        database_state.add_table(table_name)

    return database_state


MUTATIONS = [
    # Evolution 1: the app label changes from "critics" to "reviewers" (the
    # module, and so the legacy label, stays "critics").
    RenameAppLabel('critics', 'reviewers', legacy_app_label='critics'),

    # Evolution 2, written after the rename.
    AddField('Award', 'runner_up', models.ForeignKey, null=True,
             related_model='reviewers.Critic'),
    DeleteField('Award', 'critic'),
]


class RenameAppLabelThenModelMutationsTests(EvolutionTestCase):
    def test_sql_generation(self):
        """RenameAppLabel + AddField(ForeignKey to the new label) +
        DeleteField produce SQL and the same signature as one at a time
        """
        # One at a time.
        expected_sig = make_project_sig()
        app_label = 'critics'

        for mutation in copy.deepcopy(MUTATIONS):
            mutation.run_simulation(app_label=app_label,
                                    legacy_app_label='critics',
                                    project_sig=expected_sig,
                                    database_state=make_database_state(),
                                    database='default')

            if isinstance(mutation, RenameAppLabel):
                app_label = mutation.new_app_label

        self.assertEqual(
            expected_sig
            .get_app_sig('reviewers')
            .get_model_sig('Award')
            .get_field_sig('runner_up')
            .related_model,
            'reviewers.Critic')

        # The way EvolveAppTask does it (current label + legacy label).
        test_sig = make_project_sig()
        app_mutator = AppMutator(app_label='reviewers',
                                 legacy_app_label='critics',
                                 project_sig=test_sig,
                                 database_state=make_database_state(),
                                 database='default')
        app_mutator.run_mutations(MUTATIONS)

        # The evolved signature is fine...
        self.assertEqual(test_sig, expected_sig)

        # ... but the SQL can't be generated.
        sql = app_mutator.to_sql()
        self.assertTrue(sql)

        # The signature the SQL was generated against must have ended up in
        # the same state.
        self.assertEqual(app_mutator.project_sig, expected_sig)
