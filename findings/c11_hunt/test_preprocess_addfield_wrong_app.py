"""The mutation optimiser retargets a new cross-app ForeignKey to a model of
the wrong name when the evolving app renames one of its own models that
happens to share its name with the foreign model.

AppMutator._process_mutation_batch() looks up ``model_renames`` (renames of
models of the app being evolved) using only the model-name half of the
AddField's ``related_model``; the app-label half is ignored.
"""

from __future__ import unicode_literals

import copy

from django.db import models

from django_evolution.db.state import DatabaseState
from django_evolution.mutations import AddField, RenameModel
from django_evolution.mutators import AppMutator
from django_evolution.signature import (AppSignature, FieldSignature,
                                        ModelSignature, ProjectSignature)
from django_evolution.tests.base_test_case import EvolutionTestCase


def make_model_sig(name, table, fields=()):
    model_sig = ModelSignature(model_name=name, table_name=table)
    model_sig.add_field_sig(FieldSignature(
        field_name='id', field_type=models.AutoField,
        field_attrs={'primary_key': True}))

    for field_name, field_type, related_model in fields:
        model_sig.add_field_sig(FieldSignature(
            field_name=field_name, field_type=field_type,
            related_model=related_model))

    return model_sig


def make_project_sig(with_other_reviewer):
    project_sig = ProjectSignature()

    # The app being evolved. It has its own "Critic" model.
    app_sig = AppSignature(app_id='books')
    app_sig.add_model_sig(make_model_sig('Book', 'books_book'))
    app_sig.add_model_sig(make_model_sig('Critic', 'books_critic'))
    project_sig.add_app_sig(app_sig)

    # Another app, which also has a "Critic" model.
    app_sig = AppSignature(app_id='press')
    app_sig.add_model_sig(make_model_sig('Critic', 'press_critic'))

    if with_other_reviewer:
        app_sig.add_model_sig(make_model_sig('Reviewer', 'press_reviewer'))

    project_sig.add_app_sig(app_sig)

    return project_sig


def make_database_state():
    database_state = DatabaseState('default', scan=False)

    for table_name in ('books_book', 'books_critic', 'press_critic',
                       'press_reviewer'):
        database_state.add_table(table_name)

    return database_state


MUTATIONS = [
    # Book gets a relation to the *press* app's Critic...
    AddField('Book', 'press_critic', models.ForeignKey, null=True,
             related_model='press.Critic'),

    # ... and the books app's own Critic is renamed.
    RenameModel('Critic', 'Reviewer', db_table='books_critic'),
]


def run_one_at_a_time(project_sig):
    for mutation in copy.deepcopy(MUTATIONS):
        mutation.run_simulation(app_label='books',
                                project_sig=project_sig,
                                database_state=make_database_state(),
                                database='default')

    return project_sig


def run_through_app_mutator(project_sig):
    app_mutator = AppMutator(app_label='books',
                             project_sig=project_sig,
                             database_state=make_database_state(),
                             database='default')
    app_mutator.run_mutations(MUTATIONS)

    return project_sig, app_mutator.to_sql()


def get_related_model(project_sig):
    return (
        project_sig
        .get_app_sig('books')
        .get_model_sig('Book')
        .get_field_sig('press_critic')
        .related_model
    )


class PreprocessAddFieldWrongAppTests(EvolutionTestCase):
    def test_fk_silently_retargeted(self):
        """AddField(related_model='press.Critic') + RenameModel('Critic')
        in app "books" keeps pointing at press.Critic
        """
        expected_sig = run_one_at_a_time(make_project_sig(True))
        self.assertEqual(get_related_model(expected_sig), 'press.Critic')

        optimised_sig, sql = run_through_app_mutator(make_project_sig(True))

        # The unoptimised run is the reference.
        self.assertEqual(get_related_model(optimised_sig),
                         get_related_model(expected_sig))
        self.assertEqual(optimised_sig, expected_sig)

    def test_fk_constraint_in_sql(self):
        """The generated SQL references the table of press.Critic"""
        expected_sig = run_one_at_a_time(make_project_sig(True))
        expected_table = (
            expected_sig
            .get_app_sig('press')
            .get_model_sig('Critic')
            .table_name
        )

        optimised_sig, sql = run_through_app_mutator(make_project_sig(True))
        sql_text = ' '.join(
            (statement[0] if isinstance(statement, tuple) else statement)
            for statement in sql
        )

        self.assertIn('REFERENCES "%s"' % expected_table, sql_text)

    def test_fk_retargeted_to_missing_model(self):
        """Same as above when press.Reviewer doesn't exist (the accepted
        sequence must not be rejected by the optimiser)
        """
        expected_sig = run_one_at_a_time(make_project_sig(False))
        optimised_sig, sql = run_through_app_mutator(make_project_sig(False))

        self.assertEqual(optimised_sig, expected_sig)
