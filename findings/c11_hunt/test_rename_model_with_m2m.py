"""RenameModel cannot be executed on a model that owns a ManyToManyField.

The simulation accepts the mutation, but RenameModel.mutate() builds a
MockModel under the *new* model name before the signature knows that name.
Building the mock intermediary model for the ManyToManyField then looks up
"<app>.<NewName>" in the project signature and fails.

Once that is out of the way, the auto-created many-to-many table keeps the
name derived from the old table name, while the signature (through which
every later mutation computes the table name) now derives it from the new
one.
"""

from __future__ import unicode_literals

import copy

from django.db import connection, models

from django_evolution.compat import six
from django_evolution.compat.apps import register_app_models
from django_evolution.compat.db import sql_create_app
from django_evolution.mock_models import MockModel
from django_evolution.mutations import DeleteField, RenameModel
from django_evolution.mutators import AppMutator
from django_evolution.tests import models as evo_test
from django_evolution.tests.base_test_case import EvolutionTestCase
from django_evolution.tests.models import BaseTestModel
from django_evolution.tests.utils import execute_test_sql


class M2MRenameAnchor(BaseTestModel):
    value = models.IntegerField()


class M2MRenameBaseModel(BaseTestModel):
    char_field = models.CharField(max_length=20)
    anchors = models.ManyToManyField(M2MRenameAnchor)


def get_test_tables():
    with connection.cursor() as cursor:
        cursor.execute("SELECT name FROM sqlite_master WHERE type='table'"
                       " AND name LIKE 'tests_%'")

        return sorted(row[0] for row in cursor.fetchall())


class RenameModelWithM2MTests(EvolutionTestCase):
    MUTATION = RenameModel('TestModel', 'DestModel',
                           db_table='tests_destmodel')

    def setUp(self):
        super(RenameModelWithM2MTests, self).setUp()

        self.set_base_model(
            M2MRenameBaseModel,
            pre_extra_models=[('M2MRenameAnchor', M2MRenameAnchor)])

        # Create the tables for the starting models.
        register_app_models(app_label='tests',
                            model_infos=six.iteritems(self.start),
                            reset=True)
        execute_test_sql(sql_create_app(app=evo_test, db_name='default'))

    def tearDown(self):
        execute_test_sql(['DROP TABLE "%s";' % table_name
                          for table_name in get_test_tables()])

        super(RenameModelWithM2MTests, self).tearDown()

    def evolve(self, project_sig, mutations):
        database_state = self.database_state.clone()
        database_state.rescan_tables()

        app_mutator = AppMutator(app_label='tests',
                                 project_sig=project_sig,
                                 database_state=database_state,
                                 database='default')
        app_mutator.run_mutations(mutations)

        return execute_test_sql(app_mutator.to_sql())

    def test_rename_model_owning_m2m(self):
        """RenameModel on a model with a ManyToManyField can be executed"""
        # The simulation is fine with it.
        sim_sig = self.start_sig.clone()
        copy.deepcopy(self.MUTATION).run_simulation(
            app_label='tests',
            project_sig=sim_sig,
            database_state=self.database_state.clone(),
            database='default')
        self.assertIsNotNone(
            sim_sig.get_app_sig('tests').get_model_sig('DestModel'))

        # So is the real thing.
        test_sig = self.start_sig.clone()
        self.evolve(test_sig, [self.MUTATION])

        self.assertEqual(test_sig, sim_sig)
        self.assertIn('tests_destmodel', get_test_tables())

    def test_m2m_table_follows_signature(self):
        """After RenameModel, the many-to-many table is where the signature
        says it is, and can be evolved further
        """
        test_sig = self.start_sig.clone()
        self.evolve(test_sig, [self.MUTATION])

        # Where every later mutation will look for the table.
        model_sig = test_sig.get_app_sig('tests').get_model_sig('DestModel')
        model = MockModel(project_sig=test_sig,
                          app_name='tests',
                          model_name='DestModel',
                          model_sig=model_sig,
                          db_name='default')
        field = model._meta.get_field('anchors')
        m2m_table = field._get_m2m_db_table(model._meta)

        self.assertIn(m2m_table, get_test_tables())

        # For instance, this one.
        self.evolve(test_sig, [DeleteField('DestModel', 'anchors')])
        self.assertEqual(get_test_tables(),
                         ['tests_destmodel', 'tests_m2mrenameanchor'])
