"""RenameModel on an app whose signature is still stored under the legacy
app label (e.g. a version 1 signature) does not rewrite any reference to the
model, and crashes in the mutation optimiser.

Simulation.get_app_sig() and ModelMutator.model_sig both fall back to the
legacy app label to find the app signature, so the mutation is accepted, but
RenameModel.simulate() builds the old/new ``related_model`` strings from
``simulation.app_label`` (the modern label) rather than from the ID of the
app signature it actually found.
"""

from __future__ import unicode_literals

import copy

from django.db import models

from django_evolution.db.state import DatabaseState
from django_evolution.mutations import RenameAppLabel, RenameModel
from django_evolution.mutators import AppMutator
from django_evolution.signature import (AppSignature, FieldSignature,
                                        ModelSignature, ProjectSignature)
from django_evolution.tests.base_test_case import EvolutionTestCase


def make_model_sig(name, table, fields=()):
    model_sig = ModelSignature(model_name=name, table_name=table)
    model_sig.add_field_sig(FieldSignature(
        field_name='id', field_type=models.AutoField,
        field_attrs={'primary_key': True}))

    for field_name, field_type, related_model in fields:
        model_sig.add_field_sig(FieldSignature(
            field_name=field_name, field_type=field_type,
            related_model=related_model))

    return model_sig


def find_dangling(project_sig):
    """Return every relation naming a model that is not in the signature."""
    dangling = []

    for app_sig in project_sig.app_sigs:
        for model_sig in app_sig.model_sigs:
            for field_sig in model_sig.field_sigs:
                if field_sig.related_model:
                    app_id, model_name = \
                        field_sig.related_model.split('.', 1)
                    rel_app_sig = project_sig._app_sigs.get(app_id)

                    if (rel_app_sig is None or
                        rel_app_sig.get_model_sig(model_name) is None):
                        dangling.append('%s.%s.%s -> %s' % (
                            app_sig.app_id, model_sig.model_name,
                            field_sig.field_name, field_sig.related_model))

    return dangling


def make_project_sig(app_id):
    """Return a project whose 'critics' app is stored under ``app_id``."""
    project_sig = ProjectSignature()

    app_sig = AppSignature(app_id=app_id)
    app_sig.add_model_sig(make_model_sig('Critic', 'critics_critic'))
    app_sig.add_model_sig(make_model_sig(
        'Award', 'critics_award',
        [('critic', models.ForeignKey, '%s.Critic' % app_id)]))
    project_sig.add_app_sig(app_sig)

    app_sig = AppSignature(app_id='books')
    app_sig.add_model_sig(make_model_sig(
        'Book', 'books_book',
        [('critic', models.ForeignKey, '%s.Critic' % app_id),
         ('critics', models.ManyToManyField, '%s.Critic' % app_id)]))
    project_sig.add_app_sig(app_sig)

    return project_sig


MUTATION = RenameModel('Critic', 'Reviewer', db_table='critics_critic')


class RenameModelLegacyAppSigTests(EvolutionTestCase):
    def test_simulate_with_app_sig_under_legacy_label(self):
        """RenameModel rewrites references when the app signature is found
        through the legacy app label
        """
        # Reference: the app is stored under its modern label.
        modern_sig = make_project_sig('critics')
        copy.deepcopy(MUTATION).run_simulation(
            app_label='critics',
            legacy_app_label='oldcritics',
            project_sig=modern_sig,
            database_state=None)
        self.assertEqual(find_dangling(modern_sig), [])

        # Same project, same mutation, but the app signature is still stored
        # under the legacy label (the evolver passes both labels).
        legacy_sig = make_project_sig('oldcritics')
        copy.deepcopy(MUTATION).run_simulation(
            app_label='critics',
            legacy_app_label='oldcritics',
            project_sig=legacy_sig,
            database_state=None)

        # The mutation was accepted and the model was renamed...
        self.assertIsNotNone(
            legacy_sig.get_app_sig('oldcritics').get_model_sig('Reviewer'))

        # ... so every relation must follow, as it did above.
        self.assertEqual(find_dangling(legacy_sig), [])

    def test_rename_model_then_rename_app_label(self):
        """RenameModel + RenameAppLabel on a legacy-labelled app signature
        gives the same result simulated one by one and through AppMutator
        """
        mutations = [
            MUTATION,
            RenameAppLabel('oldcritics', 'critics',
                           legacy_app_label='oldcritics'),
        ]

        # One at a time.
        seq_sig = make_project_sig('oldcritics')

        for mutation in copy.deepcopy(mutations):
            mutation.run_simulation(app_label='critics',
                                    legacy_app_label='oldcritics',
                                    project_sig=seq_sig,
                                    database_state=None)

        # Through the app mutator (optimiser included), set up the way
        # EvolveAppTask does it.
        opt_sig = make_project_sig('oldcritics')
        app_mutator = AppMutator(
            app_label='critics',
            legacy_app_label='oldcritics',
            project_sig=opt_sig,
            database_state=DatabaseState('default', scan=False),
            database='default')
        app_mutator.run_mutations(mutations)
        app_mutator.to_sql()

        self.assertEqual(find_dangling(opt_sig), [])
        self.assertEqual(find_dangling(seq_sig), [])
        self.assertEqual(opt_sig, seq_sig)
