"""The mutation optimiser re-sorts a batch of mutations by model name, which
moves mutations across the RenameModel mutations they depend on.

Depending only on how the model names sort alphabetically, an accepted
sequence either loses a model (and merges every reference to two different
models into one) without any error, or is rejected.
"""

from __future__ import unicode_literals

import copy

from django.db import models

from django_evolution.db.state import DatabaseState
from django_evolution.mutations import AddField, RenameModel
from django_evolution.mutators import AppMutator
from django_evolution.signature import (AppSignature, FieldSignature,
                                        ModelSignature, ProjectSignature)
from django_evolution.tests.base_test_case import EvolutionTestCase


def make_model_sig(name, table, fields=()):
    model_sig = ModelSignature(model_name=name, table_name=table)
    model_sig.add_field_sig(FieldSignature(
        field_name='id', field_type=models.AutoField,
        field_attrs={'primary_key': True}))

    for field_name, field_type, field_attrs, related_model in fields:
        model_sig.add_field_sig(FieldSignature(
            field_name=field_name, field_type=field_type,
            field_attrs=field_attrs, related_model=related_model))

    return model_sig


def make_project_sig():
    project_sig = ProjectSignature()

    app_sig = AppSignature(app_id='zoo')
    app_sig.add_model_sig(make_model_sig(
        'Alpha', 'zoo_alpha',
        [('alpha_name', models.CharField, {'max_length': 10}, None)]))
    app_sig.add_model_sig(make_model_sig(
        'Charlie', 'zoo_charlie',
        [('charlie_count', models.IntegerField, {}, None)]))
    app_sig.add_model_sig(make_model_sig('Zebra', 'zoo_zebra'))
    app_sig.add_model_sig(make_model_sig(
        'Keeper', 'zoo_keeper',
        [('alpha', models.ForeignKey, {}, 'zoo.Alpha'),
         ('charlie', models.ForeignKey, {}, 'zoo.Charlie')]))
    project_sig.add_app_sig(app_sig)

    app_sig = AppSignature(app_id='visitors')
    app_sig.add_model_sig(make_model_sig(
        'Visit', 'visitors_visit',
        [('alphas', models.ManyToManyField, {}, 'zoo.Alpha'),
         ('charlie', models.ForeignKey, {}, 'zoo.Charlie')]))
    project_sig.add_app_sig(app_sig)

    return project_sig


def make_database_state():
    database_state = DatabaseState('default', scan=False)

    for table_name in ('zoo_alpha', 'zoo_charlie', 'zoo_zebra', 'zoo_keeper',
                       'visitors_visit', 'visitors_visit_alphas'):
        database_state.add_table(table_name)

    return database_state


def run_one_at_a_time(mutations):
    project_sig = make_project_sig()

    for mutation in copy.deepcopy(mutations):
        mutation.run_simulation(app_label='zoo',
                                project_sig=project_sig,
                                database_state=make_database_state(),
                                database='default')

    return project_sig


def run_through_app_mutator(mutations):
    project_sig = make_project_sig()
    app_mutator = AppMutator(app_label='zoo',
                             project_sig=project_sig,
                             database_state=make_database_state(),
                             database='default')
    app_mutator.run_mutations(mutations)
    app_mutator.to_sql()

    return project_sig


def describe(project_sig):
    return sorted(
        '%s.%s(%s)%s' % (
            app_sig.app_id, model_sig.model_name, model_sig.table_name,
            ''.join(
                ' %s->%s' % (field_sig.field_name, field_sig.related_model)
                for field_sig in model_sig.field_sigs
                if field_sig.related_model))
        for app_sig in project_sig.app_sigs
        for model_sig in app_sig.model_sigs
    )


class PreprocessRenameModelReorderTests(EvolutionTestCase):
    maxDiff = None

    def test_two_renames_reusing_a_name(self):
        """RenameModel('Charlie', 'Archive') + RenameModel('Alpha',
        'Charlie') keeps both models and their references apart
        """
        mutations = [
            RenameModel('Charlie', 'Archive', db_table='zoo_charlie'),
            RenameModel('Alpha', 'Charlie', db_table='zoo_alpha'),
        ]

        expected_sig = run_one_at_a_time(mutations)
        optimised_sig = run_through_app_mutator(mutations)

        self.assertEqual(describe(optimised_sig), describe(expected_sig))
        self.assertEqual(optimised_sig, expected_sig)

    def test_add_fk_to_renamed_model_depends_on_sort_order(self):
        """RenameModel + AddField(ForeignKey to the new name) works no
        matter how the model names sort
        """
        # 'Alpha' sorts before 'Keeper': this one happens to work.
        mutations = [
            RenameModel('Alpha', 'Beta', db_table='zoo_alpha'),
            AddField('Keeper', 'beta2', models.ForeignKey, null=True,
                     related_model='zoo.Beta'),
        ]
        self.assertEqual(run_through_app_mutator(mutations),
                         run_one_at_a_time(mutations))

        # 'Zebra' sorts after 'Keeper': same shape of evolution, rejected.
        mutations = [
            RenameModel('Zebra', 'Yak', db_table='zoo_zebra'),
            AddField('Keeper', 'yak', models.ForeignKey, null=True,
                     related_model='zoo.Yak'),
        ]
        expected_sig = run_one_at_a_time(mutations)
        self.assertEqual(run_through_app_mutator(mutations), expected_sig)

    def test_add_fk_then_rename_target_depends_on_sort_order(self):
        """AddField(ForeignKey) + RenameModel(of its target) works no
        matter how the model names sort
        """
        mutations = [
            AddField('Keeper', 'alpha2', models.ForeignKey, null=True,
                     related_model='zoo.Alpha'),
            RenameModel('Alpha', 'Beta', db_table='zoo_alpha'),
        ]
        self.assertEqual(run_through_app_mutator(mutations),
                         run_one_at_a_time(mutations))

        mutations = [
            AddField('Keeper', 'zebra', models.ForeignKey, null=True,
                     related_model='zoo.Zebra'),
            RenameModel('Zebra', 'Yak', db_table='zoo_zebra'),
        ]
        expected_sig = run_one_at_a_time(mutations)
        self.assertEqual(run_through_app_mutator(mutations), expected_sig)

    def test_change_renamed_model_depends_on_sort_order(self):
        """RenameModel + AddField on the new name works no matter how the
        model names sort
        """
        mutations = [
            RenameModel('Zebra', 'Beta', db_table='zoo_zebra'),
            AddField('Beta', 'stripes', models.IntegerField, null=True),
        ]
        expected_sig = run_one_at_a_time(mutations)
        self.assertEqual(run_through_app_mutator(mutations), expected_sig)
