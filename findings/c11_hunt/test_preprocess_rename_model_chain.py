"""The mutation optimiser collapses a chain of RenameModels into the first
one, but leaves everything between them untouched.

* Mutations made to the model under one of its intermediate names still use
  that name, which never exists once the chain is collapsed, so an accepted
  sequence (typically several evolution files applied in one upgrade) is
  rejected.
* A RenameModel of another model lying inside the chain (a swap of two model
  names through a temporary name) is jumped over, which loses a model and
  merges the references to both models.
"""

from __future__ import unicode_literals

import copy

from django.db import models

from django_evolution.db.state import DatabaseState
from django_evolution.mutations import AddField, ChangeField, RenameModel
from django_evolution.mutators import AppMutator
from django_evolution.signature import (AppSignature, FieldSignature,
                                        ModelSignature, ProjectSignature)
from django_evolution.tests.base_test_case import EvolutionTestCase


def make_model_sig(name, table, fields=()):
    model_sig = ModelSignature(model_name=name, table_name=table)
    model_sig.add_field_sig(FieldSignature(
        field_name='id', field_type=models.AutoField,
        field_attrs={'primary_key': True}))

    for field_name, field_type, field_attrs, related_model in fields:
        model_sig.add_field_sig(FieldSignature(
            field_name=field_name, field_type=field_type,
            field_attrs=field_attrs, related_model=related_model))

    return model_sig


def make_project_sig():
    project_sig = ProjectSignature()

    app_sig = AppSignature(app_id='books')
    app_sig.add_model_sig(make_model_sig(
        'Critic', 'books_critic',
        [('name', models.CharField, {'max_length': 10}, None)]))
    app_sig.add_model_sig(make_model_sig(
        'Writer', 'books_writer',
        [('pen_name', models.CharField, {'max_length': 10}, None)]))
    app_sig.add_model_sig(make_model_sig(
        'Book', 'books_book',
        [('critic', models.ForeignKey, {}, 'books.Critic'),
         ('writers', models.ManyToManyField, {}, 'books.Writer')]))
    project_sig.add_app_sig(app_sig)

    app_sig = AppSignature(app_id='press')
    app_sig.add_model_sig(make_model_sig(
        'Article', 'press_article',
        [('critic', models.ForeignKey, {}, 'books.Critic'),
         ('writer', models.ForeignKey, {}, 'books.Writer')]))
    project_sig.add_app_sig(app_sig)

    return project_sig


def make_database_state():
    database_state = DatabaseState('default', scan=False)

    for table_name in ('books_critic', 'books_writer', 'books_book',
                       'books_book_writers', 'press_article'):
        database_state.add_table(table_name)

    return database_state


def run_one_at_a_time(mutations):
    project_sig = make_project_sig()

    for mutation in copy.deepcopy(mutations):
        mutation.run_simulation(app_label='books',
                                project_sig=project_sig,
                                database_state=make_database_state(),
                                database='default')

    return project_sig


def run_through_app_mutator(mutations):
    project_sig = make_project_sig()
    app_mutator = AppMutator(app_label='books',
                             project_sig=project_sig,
                             database_state=make_database_state(),
                             database='default')
    app_mutator.run_mutations(mutations)
    app_mutator.to_sql()

    return project_sig


def describe(project_sig):
    return sorted(
        '%s.%s(%s)%s' % (
            app_sig.app_id, model_sig.model_name, model_sig.table_name,
            ''.join(
                ' %s->%s' % (field_sig.field_name, field_sig.related_model)
                for field_sig in model_sig.field_sigs
                if field_sig.related_model))
        for app_sig in project_sig.app_sigs
        for model_sig in app_sig.model_sigs
    )


class PreprocessRenameModelChainTests(EvolutionTestCase):
    maxDiff = None

    def test_mutations_between_two_renames(self):
        """RenameModel + AddField/ChangeField (on the new name) +
        RenameModel is accepted, like it is one mutation at a time
        """
        mutations = [
            # Evolution 1.
            RenameModel('Critic', 'Reviewer', db_table='books_critic'),

            # Evolution 2.
            AddField('Reviewer', 'rating', models.IntegerField, null=True),
            ChangeField('Reviewer', 'name', max_length=50),

            # Evolution 3.
            RenameModel('Reviewer', 'Reviewer2', db_table='books_critic'),
        ]

        expected_sig = run_one_at_a_time(mutations)
        optimised_sig = run_through_app_mutator(mutations)

        self.assertEqual(describe(optimised_sig), describe(expected_sig))
        self.assertEqual(optimised_sig, expected_sig)

    def test_swap_two_model_names(self):
        """Swapping two model names through a temporary name keeps both
        models and their references apart
        """
        mutations = [
            RenameModel('Critic', 'Tmp', db_table='books_critic'),
            RenameModel('Writer', 'Critic', db_table='books_writer'),
            RenameModel('Tmp', 'Writer', db_table='books_critic'),
        ]

        expected_sig = run_one_at_a_time(mutations)
        optimised_sig = run_through_app_mutator(mutations)

        self.assertEqual(describe(optimised_sig), describe(expected_sig))
        self.assertEqual(optimised_sig, expected_sig)
