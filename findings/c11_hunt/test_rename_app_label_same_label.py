"""RenameAppLabel that keeps the label (only the legacy label changes), or
that moves models into an app label which already has a signature, throws
away an application signature and leaves dangling references.

The first mutation is exactly what django_evolution.diff.Diff generates when
only ``legacy_app_label`` differs between two signatures (e.g. a version 1
signature stored under the modern label of an app whose module name differs
from its label).
"""

from __future__ import unicode_literals

from django.db import models

from django_evolution.db.state import DatabaseState
from django_evolution.diff import Diff
from django_evolution.mutations import RenameAppLabel
from django_evolution.mutators import AppMutator
from django_evolution.signature import (AppSignature, FieldSignature,
                                        ModelSignature, ProjectSignature)
from django_evolution.tests.base_test_case import EvolutionTestCase


def make_model_sig(name, table, fields=()):
    model_sig = ModelSignature(model_name=name, table_name=table)
    model_sig.add_field_sig(FieldSignature(
        field_name='id', field_type=models.AutoField,
        field_attrs={'primary_key': True}))

    for field_name, field_type, related_model in fields:
        model_sig.add_field_sig(FieldSignature(
            field_name=field_name, field_type=field_type,
            related_model=related_model))

    return model_sig


def find_dangling(project_sig):
    """Return every relation naming a model that is not in the signature."""
    dangling = []

    for app_sig in project_sig.app_sigs:
        for model_sig in app_sig.model_sigs:
            for field_sig in model_sig.field_sigs:
                if field_sig.related_model:
                    app_id, model_name = \
                        field_sig.related_model.split('.', 1)
                    rel_app_sig = project_sig._app_sigs.get(app_id)

                    if (rel_app_sig is None or
                        rel_app_sig.get_model_sig(model_name) is None):
                        dangling.append('%s.%s.%s -> %s' % (
                            app_sig.app_id, model_sig.model_name,
                            field_sig.field_name, field_sig.related_model))

    return dangling


class RenameAppLabelSameLabelTests(EvolutionTestCase):
    def make_project_sig(self, legacy_app_label):
        project_sig = ProjectSignature()

        app_sig = AppSignature(app_id='books',
                               legacy_app_label=legacy_app_label)
        app_sig.add_model_sig(make_model_sig('Book', 'books_book'))
        project_sig.add_app_sig(app_sig)

        app_sig = AppSignature(app_id='reviews')
        app_sig.add_model_sig(make_model_sig(
            'Review', 'reviews_review',
            [('book', models.ForeignKey, 'books.Book'),
             ('also', models.ManyToManyField, 'books.Book')]))
        project_sig.add_app_sig(app_sig)

        return project_sig

    def test_diff_generated_rename_with_same_label(self):
        """RenameAppLabel('books', 'books', legacy_app_label=...) as hinted
        by Diff keeps the app and every reference to it
        """
        # The stored signature (e.g. loaded from a version 1 signature, where
        # legacy_app_label == app_id) and the current one.
        old_sig = self.make_project_sig(legacy_app_label='books')
        new_sig = self.make_project_sig(legacy_app_label='booksmodule')

        # Side 1: what the project itself asks for.
        diff = Diff(old_sig, new_sig)
        self.assertFalse(diff.is_empty())
        mutations = diff.evolution()['books']
        self.assertEqual(
            [str(m) for m in mutations],
            ["RenameAppLabel('books', 'books',"
             " legacy_app_label='booksmodule')"])

        # Side 2: run it the way the evolver does.
        test_sig = old_sig.clone()
        app_mutator = AppMutator(
            app_label='books',
            legacy_app_label='booksmodule',
            project_sig=test_sig,
            database_state=DatabaseState('default', scan=False),
            database='default')
        app_mutator.run_mutations(mutations)
        app_mutator.to_sql()

        self.assertEqual(find_dangling(test_sig), [])
        self.assertIsNotNone(test_sig.get_app_sig('books'))
        self.assertTrue(Diff(test_sig, new_sig).is_empty())

    def test_second_rename_into_existing_label(self):
        """Two RenameAppLabels (with model_names) moving models into the same
        new label keep the models moved by the first one
        """
        project_sig = ProjectSignature()
        app_sig = AppSignature(app_id='old')
        app_sig.add_model_sig(make_model_sig('A', 'old_a'))
        app_sig.add_model_sig(make_model_sig(
            'R', 'old_r', [('fa', models.ForeignKey, 'old.A')]))
        project_sig.add_app_sig(app_sig)

        for mutation in (RenameAppLabel('old', 'new', model_names=['A']),
                         RenameAppLabel('old', 'new', model_names=['R'])):
            mutation.run_simulation(app_label='old',
                                    project_sig=project_sig,
                                    database_state=None)

        self.assertEqual(find_dangling(project_sig), [])
        self.assertEqual(
            sorted(model_sig.model_name
                   for model_sig in
                   project_sig.get_app_sig('new').model_sigs),
            ['A', 'R'])
