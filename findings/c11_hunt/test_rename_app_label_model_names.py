"""RenameAppLabel(..., model_names=[...]) (the form shown in the
documentation) always fails when run the way the evolver runs it.

RenameAppLabel.simulate() registers the new, empty AppSignature first and
only then resolves ``model_names`` through ``simulation.get_model_sig()``,
which finds the app through ``simulation.app_label``. AppMutator calls
``mutate()`` (which switches the app label to the new one) before
simulating, and EvolveAppTask uses the app's current (new) label from the
start, so the lookup always lands in the new, empty signature.
"""

from __future__ import unicode_literals

from django.db import models

from django_evolution.db.state import DatabaseState
from django_evolution.mutations import RenameAppLabel
from django_evolution.mutators import AppMutator
from django_evolution.signature import (AppSignature, FieldSignature,
                                        ModelSignature, ProjectSignature)
from django_evolution.tests.base_test_case import EvolutionTestCase


def make_model_sig(name, table, fields=()):
    model_sig = ModelSignature(model_name=name, table_name=table)
    model_sig.add_field_sig(FieldSignature(
        field_name='id', field_type=models.AutoField,
        field_attrs={'primary_key': True}))

    for field_name, field_type, related_model in fields:
        model_sig.add_field_sig(FieldSignature(
            field_name=field_name, field_type=field_type,
            related_model=related_model))

    return model_sig


def make_project_sig():
    project_sig = ProjectSignature()

    # A legacy "admin" signature, holding the models of two different apps.
    app_sig = AppSignature(app_id='admin')
    app_sig.add_model_sig(make_model_sig('LogEntry', 'admin_logentry'))
    app_sig.add_model_sig(make_model_sig('Report', 'admin_report'))
    app_sig.add_model_sig(make_model_sig(
        'Config', 'admin_config',
        [('report', models.ForeignKey, 'admin.Report')]))
    project_sig.add_app_sig(app_sig)

    app_sig = AppSignature(app_id='audit')
    app_sig.add_model_sig(make_model_sig(
        'Trail', 'audit_trail',
        [('report', models.ForeignKey, 'admin.Report'),
         ('entries', models.ManyToManyField, 'admin.LogEntry')]))
    project_sig.add_app_sig(app_sig)

    return project_sig


def run_through_app_mutator(mutation, app_label, legacy_app_label):
    project_sig = make_project_sig()
    app_mutator = AppMutator(
        app_label=app_label,
        legacy_app_label=legacy_app_label,
        project_sig=project_sig,
        database_state=DatabaseState('default', scan=False),
        database='default')
    app_mutator.run_mutations([mutation])
    app_mutator.to_sql()

    return project_sig


class RenameAppLabelModelNamesTests(EvolutionTestCase):
    # Straight from docs/mutations.rst.
    MUTATION = RenameAppLabel('admin', 'my_admin', legacy_app_label='admin',
                              model_names=['Report', 'Config'])

    def get_expected_sig(self):
        # Plain simulation, under the old label. This is the only way it
        # works.
        project_sig = make_project_sig()
        RenameAppLabel('admin', 'my_admin', legacy_app_label='admin',
                       model_names=['Report', 'Config']).run_simulation(
            app_label='admin',
            project_sig=project_sig,
            database_state=None)

        self.assertEqual(
            sorted(
                field_sig.related_model
                for app_sig in project_sig.app_sigs
                for model_sig in app_sig.model_sigs
                for field_sig in model_sig.field_sigs
                if field_sig.related_model
            ),
            ['admin.LogEntry', 'my_admin.Report', 'my_admin.Report'])

        return project_sig

    def test_with_evolver_labels(self):
        """RenameAppLabel with model_names, run through AppMutator with the
        labels EvolveAppTask passes (current label + legacy label)
        """
        self.assertEqual(
            run_through_app_mutator(self.MUTATION,
                                    app_label='my_admin',
                                    legacy_app_label='admin'),
            self.get_expected_sig())

    def test_with_old_label(self):
        """RenameAppLabel with model_names, run through AppMutator under
        the old label
        """
        self.assertEqual(
            run_through_app_mutator(self.MUTATION,
                                    app_label='admin',
                                    legacy_app_label=None),
            self.get_expected_sig())
