"""F-C14c witness: the SQL preview (Command._display_compiled_sql, i.e.
`evolve --sql`) prints nothing for a task whose work is creating new models,
while Evolver.evolve() executes CREATE TABLE for it."""
from io import StringIO

from django.db import connections, models

from django_evolution.compat.apps import register_app_models
from django_evolution.evolve import EvolveAppTask, Evolver
from django_evolution.management.commands.evolve import Command
from django_evolution.tests import models as evo_test
from django_evolution.tests.base_test_case import EvolutionTestCase
from django_evolution.tests.models import BaseTestModel
from django_evolution.tests.utils import ensure_test_db


class PreviewModel(BaseTestModel):
    value = models.CharField(max_length=10)


class T(EvolutionTestCase):
    default_base_model = PreviewModel
    needs_evolution_models = True

    def test_preview_vs_execute(self):
        with ensure_test_db():
            evolver = Evolver()
            if evolver.project_sig.get_app_sig('tests') is not None:
                evolver.project_sig.remove_app_sig('tests')
            evolver.queue_task(EvolveAppTask(evolver=evolver, app=evo_test))

            cmd = Command(stdout=StringIO(), stderr=StringIO())
            cmd.evolver = evolver
            cmd._display_compiled_sql()
            preview = [l for l in cmd.stdout.getvalue().splitlines()
                       if l.strip() and not l.startswith('--')]

            executed = []

            def wrapper(execute, sql, params, many, context):
                executed.append(sql)
                return execute(sql, params, many, context)

            with connections['default'].execute_wrapper(wrapper):
                evolver.evolve()
            ddl = [s for s in executed if s.lstrip().upper().startswith(
                ('CREATE', 'ALTER', 'DROP'))]
            print('PREVIEW:', preview)
            print('EXECUTED DDL:', ddl)
            # the property: the preview is what the execution runs
            self.assertEqual(len(preview) > 0, len(ddl) > 0)
