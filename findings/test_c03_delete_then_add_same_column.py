"""F-C03c witness: [DeleteField(x), AddField(x)] in one optimised run fails
on SQLite, while the same two mutations applied one at a time succeed.

Both are merged into one table rebuild.  to_sql() collects the deleted
column names in a set and filters `old_fields + added_fields` against it, so
the re-added field (same column name) is filtered out of the new table too;
the INSERT .. SELECT then names a column TEMP_TABLE does not have."""
from django.db import models, connection
from django_evolution.compat import six
from django_evolution.mutations import AddField, DeleteField
from django_evolution.mutators import AppMutator
from django_evolution.tests.base_test_case import EvolutionTestCase
from django_evolution.tests.models import BaseTestModel
from django_evolution.tests.utils import ensure_test_db, execute_test_sql


class MBase(BaseTestModel):
    a = models.IntegerField()
    x = models.CharField(max_length=10)


class MDest(BaseTestModel):
    a = models.IntegerField()
    x = models.IntegerField(null=True)


def columns():
    cur = connection.cursor()
    cur.execute('PRAGMA table_info("tests_testmodel")')
    return [(r[1], r[2]) for r in cur.fetchall()]


def mk():
    return [DeleteField('TestModel', 'x'),
            AddField('TestModel', 'x', models.IntegerField, null=True)]


class T(EvolutionTestCase):
    default_base_model = MBase

    def run_batches(self, batches):
        end, end_sig = self.make_end_signatures(MDest, 'TestModel')
        state = self.database_state.clone()
        sig = self.start_sig.clone()
        with ensure_test_db(model_entries=six.iteritems(self.start),
                            end_model_entries=six.iteritems(end),
                            app_label='tests', database='default'):
            state.rescan_tables()
            for batch in batches:
                m = AppMutator(app_label='tests', project_sig=sig,
                               database_state=state, database='default')
                m.run_mutations(batch)
                execute_test_sql(m.to_sql(), database='default')
            return columns()

    def test_it(self):
        ms = mk()
        one_at_a_time = self.run_batches([[ms[0]], [ms[1]]])
        print('one at a time:', one_at_a_time)
        optimised = self.run_batches([mk()])
        print('optimised    :', optimised)
        self.assertEqual(one_at_a_time, optimised)


class MDest2(BaseTestModel):
    a = models.IntegerField()
    x = models.IntegerField()


class TInitial(T):
    """Same with a NOT NULL re-added column and an initial value: the
    unmodified code raises 'table TEMP_TABLE has no column named x'."""

    def run_batches(self, batches):
        end, end_sig = self.make_end_signatures(MDest2, 'TestModel')
        state = self.database_state.clone()
        sig = self.start_sig.clone()
        with ensure_test_db(model_entries=six.iteritems(self.start),
                            end_model_entries=six.iteritems(end),
                            app_label='tests', database='default'):
            connection.cursor().execute(
                "INSERT INTO tests_testmodel (a, x) VALUES (1, 'old')")
            state.rescan_tables()
            for batch in batches:
                m = AppMutator(app_label='tests', project_sig=sig,
                               database_state=state, database='default')
                m.run_mutations(batch)
                execute_test_sql(m.to_sql(), database='default')
            cur = connection.cursor()
            cur.execute('SELECT a, x FROM tests_testmodel')
            return columns(), cur.fetchall()

    def test_it(self):
        mk2 = lambda: [DeleteField('TestModel', 'x'),
                       AddField('TestModel', 'x', models.IntegerField,
                                initial=5)]
        ms = mk2()
        one_at_a_time = self.run_batches([[ms[0]], [ms[1]]])
        print('one at a time:', one_at_a_time)
        optimised = self.run_batches([mk2()])
        print('optimised    :', optimised)
        self.assertEqual(one_at_a_time, optimised)
