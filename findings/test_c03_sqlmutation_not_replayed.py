from django.db import connection, models
from django_evolution.compat import six
from django_evolution.mutations import AddField, ChangeField, SQLMutation
from django_evolution.mutators import AppMutator
from django_evolution.signature import FieldSignature
from django_evolution.tests.base_test_case import EvolutionTestCase
from django_evolution.tests.models import BaseTestModel
from django_evolution.tests.utils import ensure_test_db, execute_test_sql


class M(BaseTestModel):
    char_field = models.CharField(max_length=20)


class T(EvolutionTestCase):
    default_base_model = M

    def _run(self, batched):
        def update(simulation):
            sig = simulation.get_model_sig('TestModel')
            sig.add_field_sig(FieldSignature(
                field_name='extra', field_type=models.IntegerField,
                field_attrs={'null': True}))

        muts = [
            SQLMutation('add_extra',
                        ['ALTER TABLE tests_testmodel ADD COLUMN "extra" integer NULL'],
                        update_func=update),
            ChangeField('TestModel', 'char_field', max_length=30),
        ]
        self.test_database_state = self.database_state.clone()
        sig = self.start_sig.clone()
        with ensure_test_db(model_entries=six.iteritems(self.start),
                            app_label='tests', database='default'):
            if batched:
                am = AppMutator(app_label='tests', project_sig=sig,
                                database_state=self.test_database_state)
                am.run_mutations(muts)
                execute_test_sql(am.to_sql(), database='default')
            else:
                for m in muts:
                    am = AppMutator(app_label='tests', project_sig=sig,
                                    database_state=self.test_database_state)
                    am.run_mutations([m])
                    execute_test_sql(am.to_sql(), database='default')
            cur = connection.cursor()
            cur.execute('PRAGMA table_info(tests_testmodel)')
            cols = [r[1] for r in cur.fetchall()]
        fields = [f.field_name for f in sig.get_app_sig('tests').get_model_sig('TestModel').field_sigs]
        return cols, fields

    def test_one_at_a_time(self):
        cols, fields = self._run(False)
        print(cols, fields)
        self.assertIn('extra', cols)

    def test_batched(self):
        cols, fields = self._run(True)
        print(cols, fields)
        self.assertIn('extra', cols)
