"""Defect: a fresh install executes part of the app's evolution sequence.

For a newly-installed app, EvolveAppTask.prepare() records the whole sequence
and computes no mutations. But the evolutions are still added to the
evolution graph, and EvolveAppTask._build_batches() then computes and runs
"pending mutations" for every evolution node, including those of new apps.
get_app_pending_mutations() only filters out mutations that have a
``model_name``; SQLMutation / RenameAppLabel (no ``model_name``) survive and
are executed against tables that were just created in their final form.
"""
from __future__ import unicode_literals

import importlib
import os
import shutil
import sys
import tempfile
from collections import Counter

from django.apps import apps
from django.core.management import call_command
from django.db import connection, models

from django_evolution.compat.apps import clear_app_cache, register_app_models
from django_evolution.compat.models import all_models
from django_evolution.models import Evolution, Version
from django_evolution.tests.base_test_case import EvolutionTestCase


ADD_INT_FIELD = (
    "from django.db import models\n"
    "from django_evolution.mutations import AddField\n"
    "MUTATIONS = [AddField(%r, %r, models.IntegerField, null=True)]\n"
)


class World(object):
    """Generated apps (real packages with evolutions/ on disk) + run driver.

    Every upgrade run goes through the real ``evolve --execute`` management
    command. All data-changing SQL that reaches the database during a run is
    logged through Django's ``connection.execute_wrapper``.
    """

    def __init__(self):
        self.tmpdir = tempfile.mkdtemp(prefix='huntc08_')
        sys.path.insert(0, self.tmpdir)
        self.packages = []
        self.labels = []
        self.runs = []
        self._installed = False

    def add_app(self, package, sequence=(), evolutions=None):
        pkg_dir = os.path.join(self.tmpdir, package)
        os.makedirs(os.path.join(pkg_dir, 'evolutions'))
        open(os.path.join(pkg_dir, '__init__.py'), 'w').close()

        with open(os.path.join(pkg_dir, 'models.py'), 'w') as fp:
            fp.write('# Models are registered dynamically.\n')

        self.packages.append(package)
        self.labels.append(package)
        self.set_sequence(package, sequence)

        for name, body in (evolutions or {}).items():
            self.write_evolution(package, name, body)

    def set_sequence(self, package, sequence):
        sequence = [str(label) for label in sequence]
        path = os.path.join(self.tmpdir, package, 'evolutions', '__init__.py')

        with open(path, 'w') as fp:
            fp.write('SEQUENCE = %r\n' % (sequence,))

        importlib.invalidate_caches()
        module = sys.modules.get('%s.evolutions' % package)

        if module is not None:
            module.SEQUENCE = sequence

    def write_evolution(self, package, name, body):
        path = os.path.join(self.tmpdir, package, 'evolutions',
                            '%s.py' % name)

        with open(path, 'w') as fp:
            fp.write(body)

        importlib.invalidate_caches()
        sys.modules.pop('%s.evolutions.%s' % (package, name), None)

    def install(self, entries=None):
        if self._installed:
            apps.unset_installed_apps()

        apps.set_installed_apps(['django_evolution'] +
                                list(entries or self.packages))
        self._installed = True

    def set_models(self, label, model_classes):
        register_app_models(
            label,
            [(model._meta.model_name, model) for model in model_classes],
            reset=True)

    def upgrade(self):
        """Perform one upgrade run. Returns the SQL that was executed."""
        log = []

        def wrapper(execute, sql, params, many, context):
            head = sql.lstrip().split(None, 1)[0].upper()

            if head not in ('SELECT', 'PRAGMA', 'SAVEPOINT', 'RELEASE',
                            'BEGIN', 'COMMIT', 'ROLLBACK'):
                log.append(sql)

            return execute(sql, params, many, context)

        self.runs.append(log)

        with connection.execute_wrapper(wrapper):
            call_command('evolve', execute=True, interactive=False,
                         verbosity=0)

        return log

    def schema_sql(self, log, label):
        """Return the logged statements that touch an app's tables."""
        return [sql for sql in log if ('%s_' % label) in sql]

    def recorded(self):
        return Counter(
            Evolution.objects.filter(app_label__in=self.labels)
            .values_list('app_label', 'label'))

    def columns(self, table):
        with connection.cursor() as cursor:
            return [
                info.name
                for info in connection.introspection.get_table_description(
                    cursor, table)
            ]

    def cleanup(self):
        with connection.cursor() as cursor:
            for table in connection.introspection.table_names():
                if any(table.startswith('%s_' % label)
                       for label in self.labels):
                    cursor.execute('DROP TABLE "%s"' % table)

        Evolution.objects.filter(app_label__in=self.labels).delete()

        for label in self.labels:
            all_models[label].clear()

        if self._installed:
            apps.unset_installed_apps()

        clear_app_cache()

        for name in list(sys.modules):
            if name.split('.')[0] in self.packages:
                del sys.modules[name]

        sys.path.remove(self.tmpdir)
        shutil.rmtree(self.tmpdir, ignore_errors=True)


def make_model(label, name, fields, module=None, **meta):
    attrs = dict(fields)
    attrs['Meta'] = type(str('Meta'), (), dict(app_label=label, **meta))
    attrs['__module__'] = str(module or '%s.models' % label)

    return type(str(name), (models.Model,), attrs)


class WorldTestCase(EvolutionTestCase):
    def setUp(self):
        super(WorldTestCase, self).setUp()
        self.world = World()

    def tearDown(self):
        # A run that fails while preparing leaves this process-wide state
        # behind (prepare_tasks() has no try/finally around it).
        from django_evolution.utils.migrations import \
            clear_global_custom_migrations

        clear_global_custom_migrations()

        self.world.cleanup()
        super(WorldTestCase, self).tearDown()


class FreshInstallTests(WorldTestCase):
    def _fresh_install_sql(self, sequence, evolutions):
        """Install one app fresh, once with and once without evolutions."""
        world = self.world
        fields = {
            'a': models.IntegerField(),
            'b': models.IntegerField(null=True),
        }

        # Reference: the same model in an app without any evolutions. This
        # is what "created, nothing executed" looks like.
        world.add_app('hcplain')
        world.add_app('hcevolved', sequence, evolutions)
        world.install()
        world.set_models('hcplain', [make_model('hcplain', 'Thing', fields)])
        world.set_models('hcevolved',
                         [make_model('hcevolved', 'Thing', fields)])

        log = world.upgrade()

        return (
            [sql.replace('hcplain', 'APP')
             for sql in world.schema_sql(log, 'hcplain')],
            [sql.replace('hcevolved', 'APP')
             for sql in world.schema_sql(log, 'hcevolved')],
        )

    def test_fresh_install_does_not_run_sql_mutation(self):
        """A fresh install records the sequence and runs none of it
        (sequence containing a SQLMutation)
        """
        plain_sql, evolved_sql = self._fresh_install_sql(
            ['add_b', 'fill_b'],
            {
                'add_b': ADD_INT_FIELD % ('Thing', 'b'),
                'fill_b': (
                    "from django_evolution.mutations import SQLMutation\n"
                    "MUTATIONS = [\n"
                    "    SQLMutation('fill_b',\n"
                    "                ['UPDATE hcevolved_thing SET b = a'],\n"
                    "                lambda simulation: None),\n"
                    "]\n"
                ),
            })

        # The whole sequence is recorded...
        self.assertEqual(self.world.recorded(),
                         Counter({('hcevolved', 'add_b'): 1,
                                  ('hcevolved', 'fill_b'): 1}))

        # ... and all that ran is the table creation.
        self.assertEqual(evolved_sql, plain_sql)

    def test_fresh_install_with_rename_app_label_in_sequence(self):
        """A fresh install records the sequence and runs none of it
        (sequence containing a RenameAppLabel from an older release)
        """
        plain_sql, evolved_sql = self._fresh_install_sql(
            ['add_b', 'rename_label'],
            {
                'add_b': ADD_INT_FIELD % ('Thing', 'b'),
                'rename_label': (
                    "from django_evolution.mutations import RenameAppLabel\n"
                    "MUTATIONS = [\n"
                    "    RenameAppLabel('hcoldlabel', 'hcevolved',\n"
                    "                   legacy_app_label='hcoldlabel'),\n"
                    "]\n"
                ),
            })

        self.assertEqual(self.world.recorded(),
                         Counter({('hcevolved', 'add_b'): 1,
                                  ('hcevolved', 'rename_label'): 1}))
        self.assertEqual(evolved_sql, plain_sql)
