"""Defect: an app that is not in the stored signature is "new" on every run.

EvolveAppTask.prepare() only adds a new app's signature to the stored project
signature if it has models to create. An app with an evolution sequence but
nothing to create (no models at all, or tables that already exist) therefore
never enters the stored signature, is treated as freshly installed by every
later run, and has its WHOLE sequence recorded again each time anything else
is upgraded (and evolutions added later are recorded without being run).
"""
from __future__ import unicode_literals

import importlib
import os
import shutil
import sys
import tempfile
from collections import Counter

from django.apps import apps
from django.core.management import call_command
from django.db import connection, models

from django_evolution.compat.apps import clear_app_cache, register_app_models
from django_evolution.compat.models import all_models
from django_evolution.models import Evolution, Version
from django_evolution.tests.base_test_case import EvolutionTestCase


ADD_INT_FIELD = (
    "from django.db import models\n"
    "from django_evolution.mutations import AddField\n"
    "MUTATIONS = [AddField(%r, %r, models.IntegerField, null=True)]\n"
)


class World(object):
    """Generated apps (real packages with evolutions/ on disk) + run driver.

    Every upgrade run goes through the real ``evolve --execute`` management
    command. All data-changing SQL that reaches the database during a run is
    logged through Django's ``connection.execute_wrapper``.
    """

    def __init__(self):
        self.tmpdir = tempfile.mkdtemp(prefix='huntc08_')
        sys.path.insert(0, self.tmpdir)
        self.packages = []
        self.labels = []
        self.runs = []
        self._installed = False

    def add_app(self, package, sequence=(), evolutions=None):
        pkg_dir = os.path.join(self.tmpdir, package)
        os.makedirs(os.path.join(pkg_dir, 'evolutions'))
        open(os.path.join(pkg_dir, '__init__.py'), 'w').close()

        with open(os.path.join(pkg_dir, 'models.py'), 'w') as fp:
            fp.write('# Models are registered dynamically.\n')

        self.packages.append(package)
        self.labels.append(package)
        self.set_sequence(package, sequence)

        for name, body in (evolutions or {}).items():
            self.write_evolution(package, name, body)

    def set_sequence(self, package, sequence):
        sequence = [str(label) for label in sequence]
        path = os.path.join(self.tmpdir, package, 'evolutions', '__init__.py')

        with open(path, 'w') as fp:
            fp.write('SEQUENCE = %r\n' % (sequence,))

        importlib.invalidate_caches()
        module = sys.modules.get('%s.evolutions' % package)

        if module is not None:
            module.SEQUENCE = sequence

    def write_evolution(self, package, name, body):
        path = os.path.join(self.tmpdir, package, 'evolutions',
                            '%s.py' % name)

        with open(path, 'w') as fp:
            fp.write(body)

        importlib.invalidate_caches()
        sys.modules.pop('%s.evolutions.%s' % (package, name), None)

    def install(self, entries=None):
        if self._installed:
            apps.unset_installed_apps()

        apps.set_installed_apps(['django_evolution'] +
                                list(entries or self.packages))
        self._installed = True

    def set_models(self, label, model_classes):
        register_app_models(
            label,
            [(model._meta.model_name, model) for model in model_classes],
            reset=True)

    def upgrade(self):
        """Perform one upgrade run. Returns the SQL that was executed."""
        log = []

        def wrapper(execute, sql, params, many, context):
            head = sql.lstrip().split(None, 1)[0].upper()

            if head not in ('SELECT', 'PRAGMA', 'SAVEPOINT', 'RELEASE',
                            'BEGIN', 'COMMIT', 'ROLLBACK'):
                log.append(sql)

            return execute(sql, params, many, context)

        self.runs.append(log)

        with connection.execute_wrapper(wrapper):
            call_command('evolve', execute=True, interactive=False,
                         verbosity=0)

        return log

    def schema_sql(self, log, label):
        """Return the logged statements that touch an app's tables."""
        return [sql for sql in log if ('%s_' % label) in sql]

    def recorded(self):
        return Counter(
            Evolution.objects.filter(app_label__in=self.labels)
            .values_list('app_label', 'label'))

    def columns(self, table):
        with connection.cursor() as cursor:
            return [
                info.name
                for info in connection.introspection.get_table_description(
                    cursor, table)
            ]

    def cleanup(self):
        with connection.cursor() as cursor:
            for table in connection.introspection.table_names():
                if any(table.startswith('%s_' % label)
                       for label in self.labels):
                    cursor.execute('DROP TABLE "%s"' % table)

        Evolution.objects.filter(app_label__in=self.labels).delete()

        for label in self.labels:
            all_models[label].clear()

        if self._installed:
            apps.unset_installed_apps()

        clear_app_cache()

        for name in list(sys.modules):
            if name.split('.')[0] in self.packages:
                del sys.modules[name]

        sys.path.remove(self.tmpdir)
        shutil.rmtree(self.tmpdir, ignore_errors=True)


def make_model(label, name, fields, module=None, **meta):
    attrs = dict(fields)
    attrs['Meta'] = type(str('Meta'), (), dict(app_label=label, **meta))
    attrs['__module__'] = str(module or '%s.models' % label)

    return type(str(name), (models.Model,), attrs)


class WorldTestCase(EvolutionTestCase):
    def setUp(self):
        super(WorldTestCase, self).setUp()
        self.world = World()

    def tearDown(self):
        # A run that fails while preparing leaves this process-wide state
        # behind (prepare_tasks() has no try/finally around it).
        from django_evolution.utils.migrations import \
            clear_global_custom_migrations

        clear_global_custom_migrations()

        self.world.cleanup()
        super(WorldTestCase, self).tearDown()


class ModellessAppTests(WorldTestCase):
    def test_modelless_app_is_recorded_once(self):
        """Each evolution of an app without models is recorded exactly once
        over the history [fresh install, upgrade of an unrelated app]
        """
        world = self.world
        world.add_app('hcnomodels', ['n1', 'n2'], {
            'n1': 'MUTATIONS = []\n',
            'n2': 'MUTATIONS = []\n',
        })
        world.add_app('hcother')
        world.install()
        world.set_models('hcother', [
            make_model('hcother', 'Thing', {'a': models.IntegerField()}),
        ])

        # Run 1: fresh install.
        world.upgrade()
        after_run1 = world.recorded()
        self.assertEqual(after_run1, Counter({('hcnomodels', 'n1'): 1,
                                              ('hcnomodels', 'n2'): 1}))

        # Run 2: an unrelated app gains a field and an evolution.
        world.set_models('hcother', [
            make_model('hcother', 'Thing', {
                'a': models.IntegerField(),
                'b': models.IntegerField(null=True),
            }),
        ])
        world.write_evolution('hcother', 'add_b',
                              ADD_INT_FIELD % ('Thing', 'b'))
        world.set_sequence('hcother', ['add_b'])
        world.upgrade()

        # Everything recorded by run 1 must still be recorded exactly once,
        # and run 2 must only have added what it applied.
        expected = after_run1 + Counter({('hcother', 'add_b'): 1})
        self.assertEqual(world.recorded(), expected)

    def test_app_with_existing_tables_gets_evolved(self):
        """An app whose table existed before the first run still gets its
        later evolutions executed (and recorded once)
        """
        world = self.world
        world.add_app('hcadopted', ['a0'], {'a0': 'MUTATIONS = []\n'})
        world.install()

        model_v1 = make_model('hcadopted', 'Thing',
                              {'a': models.IntegerField()})
        world.set_models('hcadopted', [model_v1])

        # The table predates Django Evolution (an adopted database).
        with connection.schema_editor() as schema_editor:
            schema_editor.create_model(model_v1)

        # Something else must need creating for the first run to happen.
        world.add_app('hcother')
        world.install()
        world.set_models('hcadopted', [model_v1])
        world.set_models('hcother', [
            make_model('hcother', 'Thing', {'a': models.IntegerField()}),
        ])
        world.upgrade()

        # Release 2: a field and its evolution are added.
        model_v2 = make_model('hcadopted', 'Thing', {
            'a': models.IntegerField(),
            'b': models.IntegerField(null=True),
        })
        world.set_models('hcadopted', [model_v2])
        world.write_evolution('hcadopted', 'add_b',
                              ADD_INT_FIELD % ('Thing', 'b'))
        world.set_sequence('hcadopted', ['a0', 'add_b'])

        world.set_models('hcother', [
            make_model('hcother', 'Thing', {
                'a': models.IntegerField(),
                'b': models.IntegerField(null=True),
            }),
        ])
        world.write_evolution('hcother', 'add_b',
                              ADD_INT_FIELD % ('Thing', 'b'))
        world.set_sequence('hcother', ['add_b'])
        world.upgrade()

        with self.subTest('recorded exactly once'):
            recorded = world.recorded()
            self.assertEqual(recorded[('hcadopted', 'a0')], 1)
            self.assertEqual(recorded[('hcadopted', 'add_b')], 1)

        with self.subTest('recorded as applied => was applied'):
            # "add_b" is recorded as applied, so the table must have what
            # the model has.
            self.assertEqual(
                world.columns('hcadopted_thing'),
                [field.column for field in model_v2._meta.local_fields])
