"""Defect: a failed run keeps (commits) evolutions it never records.

Evolutions are only recorded by Evolver._save_project_sig(), after every task
of every task class has executed. But SQLExecutor.run_sql() starts a *new*
transaction on every call -- committing whatever the previous call ran -- so
each app's SQL is committed as soon as the next app starts. If a later
statement of the run fails, the earlier apps' evolutions stay applied but
unrecorded, and the next run executes them a second time.
"""
from __future__ import unicode_literals

import importlib
import os
import shutil
import sys
import tempfile
from collections import Counter

from django.apps import apps
from django.core.management import call_command
from django.db import connection, models

from django_evolution.compat.apps import clear_app_cache, register_app_models
from django_evolution.compat.models import all_models
from django_evolution.models import Evolution, Version
from django_evolution.tests.base_test_case import EvolutionTestCase


ADD_INT_FIELD = (
    "from django.db import models\n"
    "from django_evolution.mutations import AddField\n"
    "MUTATIONS = [AddField(%r, %r, models.IntegerField, null=True)]\n"
)


class World(object):
    """Generated apps (real packages with evolutions/ on disk) + run driver.

    Every upgrade run goes through the real ``evolve --execute`` management
    command. All data-changing SQL that reaches the database during a run is
    logged through Django's ``connection.execute_wrapper``.
    """

    def __init__(self):
        self.tmpdir = tempfile.mkdtemp(prefix='huntc08_')
        sys.path.insert(0, self.tmpdir)
        self.packages = []
        self.labels = []
        self.runs = []
        self._installed = False

    def add_app(self, package, sequence=(), evolutions=None):
        pkg_dir = os.path.join(self.tmpdir, package)
        os.makedirs(os.path.join(pkg_dir, 'evolutions'))
        open(os.path.join(pkg_dir, '__init__.py'), 'w').close()

        with open(os.path.join(pkg_dir, 'models.py'), 'w') as fp:
            fp.write('# Models are registered dynamically.\n')

        self.packages.append(package)
        self.labels.append(package)
        self.set_sequence(package, sequence)

        for name, body in (evolutions or {}).items():
            self.write_evolution(package, name, body)

    def set_sequence(self, package, sequence):
        sequence = [str(label) for label in sequence]
        path = os.path.join(self.tmpdir, package, 'evolutions', '__init__.py')

        with open(path, 'w') as fp:
            fp.write('SEQUENCE = %r\n' % (sequence,))

        importlib.invalidate_caches()
        module = sys.modules.get('%s.evolutions' % package)

        if module is not None:
            module.SEQUENCE = sequence

    def write_evolution(self, package, name, body):
        path = os.path.join(self.tmpdir, package, 'evolutions',
                            '%s.py' % name)

        with open(path, 'w') as fp:
            fp.write(body)

        importlib.invalidate_caches()
        sys.modules.pop('%s.evolutions.%s' % (package, name), None)

    def install(self, entries=None):
        if self._installed:
            apps.unset_installed_apps()

        apps.set_installed_apps(['django_evolution'] +
                                list(entries or self.packages))
        self._installed = True

    def set_models(self, label, model_classes):
        register_app_models(
            label,
            [(model._meta.model_name, model) for model in model_classes],
            reset=True)

    def upgrade(self):
        """Perform one upgrade run. Returns the SQL that was executed."""
        log = []

        def wrapper(execute, sql, params, many, context):
            head = sql.lstrip().split(None, 1)[0].upper()

            if head not in ('SELECT', 'PRAGMA', 'SAVEPOINT', 'RELEASE',
                            'BEGIN', 'COMMIT', 'ROLLBACK'):
                log.append(sql)

            return execute(sql, params, many, context)

        self.runs.append(log)

        with connection.execute_wrapper(wrapper):
            call_command('evolve', execute=True, interactive=False,
                         verbosity=0)

        return log

    def schema_sql(self, log, label):
        """Return the logged statements that touch an app's tables."""
        return [sql for sql in log if ('%s_' % label) in sql]

    def recorded(self):
        return Counter(
            Evolution.objects.filter(app_label__in=self.labels)
            .values_list('app_label', 'label'))

    def columns(self, table):
        with connection.cursor() as cursor:
            return [
                info.name
                for info in connection.introspection.get_table_description(
                    cursor, table)
            ]

    def cleanup(self):
        with connection.cursor() as cursor:
            for table in connection.introspection.table_names():
                if any(table.startswith('%s_' % label)
                       for label in self.labels):
                    cursor.execute('DROP TABLE "%s"' % table)

        Evolution.objects.filter(app_label__in=self.labels).delete()

        for label in self.labels:
            all_models[label].clear()

        if self._installed:
            apps.unset_installed_apps()

        clear_app_cache()

        for name in list(sys.modules):
            if name.split('.')[0] in self.packages:
                del sys.modules[name]

        sys.path.remove(self.tmpdir)
        shutil.rmtree(self.tmpdir, ignore_errors=True)


def make_model(label, name, fields, module=None, **meta):
    attrs = dict(fields)
    attrs['Meta'] = type(str('Meta'), (), dict(app_label=label, **meta))
    attrs['__module__'] = str(module or '%s.models' % label)

    return type(str(name), (models.Model,), attrs)


class WorldTestCase(EvolutionTestCase):
    def setUp(self):
        super(WorldTestCase, self).setUp()
        self.world = World()

    def tearDown(self):
        # A run that fails while preparing leaves this process-wide state
        # behind (prepare_tasks() has no try/finally around it).
        from django_evolution.utils.migrations import \
            clear_global_custom_migrations

        clear_global_custom_migrations()

        self.world.cleanup()
        super(WorldTestCase, self).tearDown()
from django.core.management.base import CommandError
from django.db.models.signals import post_migrate


class FailedRunTests(WorldTestCase):
    def _install_two_apps(self):
        world = self.world
        world.add_app('hcfirst')
        world.add_app('hcsecond')
        world.install()

        for label in ('hcfirst', 'hcsecond'):
            world.set_models(label, [
                make_model(label, 'Thing', {'a': models.IntegerField()}),
            ])

        world.upgrade()

    def _release_add_b(self, label, evolution_body=None):
        world = self.world
        world.set_models(label, [
            make_model(label, 'Thing', {
                'a': models.IntegerField(),
                'b': models.IntegerField(null=True),
            }),
        ])
        world.write_evolution(
            label, 'add_b',
            evolution_body or ADD_INT_FIELD % ('Thing', 'b'))
        world.set_sequence(label, ['add_b'])

    def test_failure_in_later_app(self):
        """An evolution is executed at most once over the history
        [install, upgrade failing in the second app, fixed upgrade]
        """
        world = self.world
        self._install_two_apps()

        # Release 2: both apps add a field. The second app's evolution is
        # broken (it's simulated correctly, but its SQL fails).
        self._release_add_b('hcfirst')
        self._release_add_b(
            'hcsecond',
            "from django.db import models\n"
            "from django_evolution.mutations import SQLMutation\n"
            "def update(simulation):\n"
            "    from django_evolution.mutations import AddField\n"
            "    AddField('Thing', 'b', models.IntegerField,\n"
            "             null=True).simulate(simulation)\n"
            "MUTATIONS = [\n"
            "    SQLMutation('add_b', ['ALTER TABLE hcsecond_typo ADD COLUMN'\n"
            "                          ' b integer NULL'], update),\n"
            "]\n")

        columns_before = world.columns('hcfirst_thing')
        versions_before = Version.objects.count()

        with self.assertRaises(CommandError):
            world.upgrade()

        # The run didn't complete: nothing is recorded, no version is saved.
        self.assertEqual(world.recorded(), Counter())
        self.assertEqual(Version.objects.count(), versions_before)

        # Did the failed run leave hcfirst:add_b applied?
        failed_run_applied = (world.columns('hcfirst_thing') !=
                              columns_before)

        with self.subTest('unrecorded => not applied'):
            self.assertFalse(failed_run_applied)

        # Release 2.1 fixes the second app's evolution.
        self._release_add_b('hcsecond')
        log = world.upgrade()

        self.assertEqual(world.recorded(),
                         Counter({('hcfirst', 'add_b'): 1,
                                  ('hcsecond', 'add_b'): 1}))

        with self.subTest('executed at most once'):
            # This run completed, so whatever it ran for hcfirst is applied.
            fixed_run_applied = bool(world.schema_sql(log, 'hcfirst'))

            self.assertLessEqual(
                int(failed_run_applied) + int(fixed_run_applied), 1,
                'hcfirst:add_b was applied by the failed run AND by the '
                'next run: %r' % world.schema_sql(log, 'hcfirst'))

    def test_failure_after_all_sql(self):
        """Same, with the failure coming from a post_migrate handler

        NOTE: HUNT_FIX_failed_run_commits_earlier_apps.diff does NOT repair
        this one (see HUNT_NOTES.md); it is here to show how wide the window
        between "committed" and "recorded" is.
        """
        world = self.world
        self._install_two_apps()
        self._release_add_b('hcfirst')

        columns_before = world.columns('hcfirst_thing')

        def handler(**kwargs):
            raise RuntimeError('post_migrate handler failed')

        post_migrate.connect(handler)

        try:
            with self.assertRaises(RuntimeError):
                world.upgrade()
        finally:
            post_migrate.disconnect(handler)

        self.assertEqual(world.recorded(), Counter())
        self.assertEqual(world.columns('hcfirst_thing'), columns_before)
