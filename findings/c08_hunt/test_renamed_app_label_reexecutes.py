"""Defect: after an app label rename, recorded evolutions are run again.

EvolveAppTask.prepare() finds an app's stored signature under its current
label OR its older (legacy) label, but get_unapplied_evolutions() /
get_applied_evolutions() only look for Evolution rows recorded under the
current label. When an app moves to a new label (the documented use case of
RenameAppLabel), every evolution recorded under the old label counts as
unapplied: its mutations are simulated/executed again and it is recorded a
second time, under the new label.
"""
from __future__ import unicode_literals

import importlib
import os
import shutil
import sys
import tempfile
from collections import Counter

from django.apps import apps
from django.core.management import call_command
from django.db import connection, models

from django_evolution.compat.apps import clear_app_cache, register_app_models
from django_evolution.compat.models import all_models
from django_evolution.models import Evolution, Version
from django_evolution.tests.base_test_case import EvolutionTestCase


ADD_INT_FIELD = (
    "from django.db import models\n"
    "from django_evolution.mutations import AddField\n"
    "MUTATIONS = [AddField(%r, %r, models.IntegerField, null=True)]\n"
)


class World(object):
    """Generated apps (real packages with evolutions/ on disk) + run driver.

    Every upgrade run goes through the real ``evolve --execute`` management
    command. All data-changing SQL that reaches the database during a run is
    logged through Django's ``connection.execute_wrapper``.
    """

    def __init__(self):
        self.tmpdir = tempfile.mkdtemp(prefix='huntc08_')
        sys.path.insert(0, self.tmpdir)
        self.packages = []
        self.labels = []
        self.runs = []
        self._installed = False

    def add_app(self, package, sequence=(), evolutions=None):
        pkg_dir = os.path.join(self.tmpdir, package)
        os.makedirs(os.path.join(pkg_dir, 'evolutions'))
        open(os.path.join(pkg_dir, '__init__.py'), 'w').close()

        with open(os.path.join(pkg_dir, 'models.py'), 'w') as fp:
            fp.write('# Models are registered dynamically.\n')

        self.packages.append(package)
        self.labels.append(package)
        self.set_sequence(package, sequence)

        for name, body in (evolutions or {}).items():
            self.write_evolution(package, name, body)

    def set_sequence(self, package, sequence):
        sequence = [str(label) for label in sequence]
        path = os.path.join(self.tmpdir, package, 'evolutions', '__init__.py')

        with open(path, 'w') as fp:
            fp.write('SEQUENCE = %r\n' % (sequence,))

        importlib.invalidate_caches()
        module = sys.modules.get('%s.evolutions' % package)

        if module is not None:
            module.SEQUENCE = sequence

    def write_evolution(self, package, name, body):
        path = os.path.join(self.tmpdir, package, 'evolutions',
                            '%s.py' % name)

        with open(path, 'w') as fp:
            fp.write(body)

        importlib.invalidate_caches()
        sys.modules.pop('%s.evolutions.%s' % (package, name), None)

    def install(self, entries=None):
        if self._installed:
            apps.unset_installed_apps()

        apps.set_installed_apps(['django_evolution'] +
                                list(entries or self.packages))
        self._installed = True

    def set_models(self, label, model_classes):
        register_app_models(
            label,
            [(model._meta.model_name, model) for model in model_classes],
            reset=True)

    def upgrade(self):
        """Perform one upgrade run. Returns the SQL that was executed."""
        log = []

        def wrapper(execute, sql, params, many, context):
            head = sql.lstrip().split(None, 1)[0].upper()

            if head not in ('SELECT', 'PRAGMA', 'SAVEPOINT', 'RELEASE',
                            'BEGIN', 'COMMIT', 'ROLLBACK'):
                log.append(sql)

            return execute(sql, params, many, context)

        self.runs.append(log)

        with connection.execute_wrapper(wrapper):
            call_command('evolve', execute=True, interactive=False,
                         verbosity=0)

        return log

    def schema_sql(self, log, label):
        """Return the logged statements that touch an app's tables."""
        return [sql for sql in log if ('%s_' % label) in sql]

    def recorded(self):
        return Counter(
            Evolution.objects.filter(app_label__in=self.labels)
            .values_list('app_label', 'label'))

    def columns(self, table):
        with connection.cursor() as cursor:
            return [
                info.name
                for info in connection.introspection.get_table_description(
                    cursor, table)
            ]

    def cleanup(self):
        with connection.cursor() as cursor:
            for table in connection.introspection.table_names():
                if any(table.startswith('%s_' % label)
                       for label in self.labels):
                    cursor.execute('DROP TABLE "%s"' % table)

        Evolution.objects.filter(app_label__in=self.labels).delete()

        for label in self.labels:
            all_models[label].clear()

        if self._installed:
            apps.unset_installed_apps()

        clear_app_cache()

        for name in list(sys.modules):
            if name.split('.')[0] in self.packages:
                del sys.modules[name]

        sys.path.remove(self.tmpdir)
        shutil.rmtree(self.tmpdir, ignore_errors=True)


def make_model(label, name, fields, module=None, **meta):
    attrs = dict(fields)
    attrs['Meta'] = type(str('Meta'), (), dict(app_label=label, **meta))
    attrs['__module__'] = str(module or '%s.models' % label)

    return type(str(name), (models.Model,), attrs)


class WorldTestCase(EvolutionTestCase):
    def setUp(self):
        super(WorldTestCase, self).setUp()
        self.world = World()

    def tearDown(self):
        # A run that fails while preparing leaves this process-wide state
        # behind (prepare_tasks() has no try/finally around it).
        from django_evolution.utils.migrations import \
            clear_global_custom_migrations

        clear_global_custom_migrations()

        self.world.cleanup()
        super(WorldTestCase, self).tearDown()


FILL_B = (
    "from django_evolution.mutations import SQLMutation\n"
    "MUTATIONS = [\n"
    "    SQLMutation('fill_b', ['UPDATE hcpkg_thing SET b = a + 1'],\n"
    "                lambda simulation: None),\n"
    "]\n"
)

RENAME_LABEL = (
    "from django_evolution.mutations import RenameAppLabel\n"
    "MUTATIONS = [\n"
    "    RenameAppLabel('hcpkg', 'hcmodern', legacy_app_label='hcpkg'),\n"
    "]\n"
)


class RenamedAppLabelTests(WorldTestCase):
    def test_recorded_evolution_not_rerun_after_label_rename(self):
        """An evolution recorded under the app's old label is not executed
        or recorded again once the app uses its new label
        """
        world = self.world
        world.labels.append('hcmodern')

        fields = {
            'a': models.IntegerField(),
            'b': models.IntegerField(null=True),
        }

        # Release 1: package "hcpkg", default label "hcpkg".
        world.add_app('hcpkg')
        world.install()
        world.set_models('hcpkg', [
            make_model('hcpkg', 'Thing', fields, db_table='hcpkg_thing'),
        ])
        world.upgrade()

        # Release 2: a data evolution. It's executed and recorded.
        world.write_evolution('hcpkg', 'fill_b', FILL_B)
        world.set_sequence('hcpkg', ['fill_b'])
        log = world.upgrade()
        self.assertEqual(world.schema_sql(log, 'hcpkg'),
                         ['UPDATE hcpkg_thing SET b = a + 1'])
        self.assertEqual(world.recorded(),
                         Counter({('hcpkg', 'fill_b'): 1}))

        # Release 3: the app gets an AppConfig with label "hcmodern", a
        # RenameAppLabel evolution for that, and a new field.
        with open(os.path.join(world.tmpdir, 'hcpkg', 'apps.py'), 'w') as fp:
            fp.write("from django.apps import AppConfig\n"
                     "class HCConfig(AppConfig):\n"
                     "    name = 'hcpkg'\n"
                     "    label = 'hcmodern'\n")

        importlib.invalidate_caches()
        all_models['hcpkg'].clear()
        world.install(['hcpkg.apps.HCConfig'])

        fields = dict(fields, c=models.IntegerField(null=True))
        world.set_models('hcmodern', [
            make_model('hcmodern', 'Thing', fields, module='hcpkg.models',
                       db_table='hcpkg_thing'),
        ])
        world.write_evolution('hcpkg', 'rename_label', RENAME_LABEL)
        world.write_evolution('hcpkg', 'add_c',
                              ADD_INT_FIELD % ('Thing', 'c'))
        world.set_sequence('hcpkg', ['fill_b', 'rename_label', 'add_c'])

        log = world.upgrade()

        with self.subTest('recorded evolutions are not executed again'):
            self.assertNotIn('UPDATE hcpkg_thing SET b = a + 1',
                             world.schema_sql(log, 'hcpkg'))

        with self.subTest('each evolution is recorded exactly once'):
            per_label = Counter(
                label
                for (app_label, label), count in world.recorded().items()
                for _i in range(count)
            )
            self.assertEqual(per_label, Counter({'fill_b': 1,
                                                 'rename_label': 1,
                                                 'add_c': 1}))

        # And a no-op re-run stays a no-op.
        with self.subTest('no-op re-run'):
            self.assertEqual(world.schema_sql(world.upgrade(), 'hcpkg'), [])
