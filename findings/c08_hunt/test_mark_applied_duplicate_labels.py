"""Defect (minor): mark-evolution-applied records a repeated label twice.

The command checks the requested labels against the database before writing,
but never against each other; ``bulk_create`` then creates one row per
argument. The duplicate later makes ``wipe-evolution`` refuse the label
("Too many evolutions named ...").
"""
from __future__ import unicode_literals

import importlib
import os
import shutil
import sys
import tempfile
from collections import Counter

from django.apps import apps
from django.core.management import call_command
from django.db import connection, models

from django_evolution.compat.apps import clear_app_cache, register_app_models
from django_evolution.compat.models import all_models
from django_evolution.models import Evolution, Version
from django_evolution.tests.base_test_case import EvolutionTestCase


ADD_INT_FIELD = (
    "from django.db import models\n"
    "from django_evolution.mutations import AddField\n"
    "MUTATIONS = [AddField(%r, %r, models.IntegerField, null=True)]\n"
)


class World(object):
    """Generated apps (real packages with evolutions/ on disk) + run driver.

    Every upgrade run goes through the real ``evolve --execute`` management
    command. All data-changing SQL that reaches the database during a run is
    logged through Django's ``connection.execute_wrapper``.
    """

    def __init__(self):
        self.tmpdir = tempfile.mkdtemp(prefix='huntc08_')
        sys.path.insert(0, self.tmpdir)
        self.packages = []
        self.labels = []
        self.runs = []
        self._installed = False

    def add_app(self, package, sequence=(), evolutions=None):
        pkg_dir = os.path.join(self.tmpdir, package)
        os.makedirs(os.path.join(pkg_dir, 'evolutions'))
        open(os.path.join(pkg_dir, '__init__.py'), 'w').close()

        with open(os.path.join(pkg_dir, 'models.py'), 'w') as fp:
            fp.write('# Models are registered dynamically.\n')

        self.packages.append(package)
        self.labels.append(package)
        self.set_sequence(package, sequence)

        for name, body in (evolutions or {}).items():
            self.write_evolution(package, name, body)

    def set_sequence(self, package, sequence):
        sequence = [str(label) for label in sequence]
        path = os.path.join(self.tmpdir, package, 'evolutions', '__init__.py')

        with open(path, 'w') as fp:
            fp.write('SEQUENCE = %r\n' % (sequence,))

        importlib.invalidate_caches()
        module = sys.modules.get('%s.evolutions' % package)

        if module is not None:
            module.SEQUENCE = sequence

    def write_evolution(self, package, name, body):
        path = os.path.join(self.tmpdir, package, 'evolutions',
                            '%s.py' % name)

        with open(path, 'w') as fp:
            fp.write(body)

        importlib.invalidate_caches()
        sys.modules.pop('%s.evolutions.%s' % (package, name), None)

    def install(self, entries=None):
        if self._installed:
            apps.unset_installed_apps()

        apps.set_installed_apps(['django_evolution'] +
                                list(entries or self.packages))
        self._installed = True

    def set_models(self, label, model_classes):
        register_app_models(
            label,
            [(model._meta.model_name, model) for model in model_classes],
            reset=True)

    def upgrade(self):
        """Perform one upgrade run. Returns the SQL that was executed."""
        log = []

        def wrapper(execute, sql, params, many, context):
            head = sql.lstrip().split(None, 1)[0].upper()

            if head not in ('SELECT', 'PRAGMA', 'SAVEPOINT', 'RELEASE',
                            'BEGIN', 'COMMIT', 'ROLLBACK'):
                log.append(sql)

            return execute(sql, params, many, context)

        self.runs.append(log)

        with connection.execute_wrapper(wrapper):
            call_command('evolve', execute=True, interactive=False,
                         verbosity=0)

        return log

    def schema_sql(self, log, label):
        """Return the logged statements that touch an app's tables."""
        return [sql for sql in log if ('%s_' % label) in sql]

    def recorded(self):
        return Counter(
            Evolution.objects.filter(app_label__in=self.labels)
            .values_list('app_label', 'label'))

    def columns(self, table):
        with connection.cursor() as cursor:
            return [
                info.name
                for info in connection.introspection.get_table_description(
                    cursor, table)
            ]

    def cleanup(self):
        with connection.cursor() as cursor:
            for table in connection.introspection.table_names():
                if any(table.startswith('%s_' % label)
                       for label in self.labels):
                    cursor.execute('DROP TABLE "%s"' % table)

        Evolution.objects.filter(app_label__in=self.labels).delete()

        for label in self.labels:
            all_models[label].clear()

        if self._installed:
            apps.unset_installed_apps()

        clear_app_cache()

        for name in list(sys.modules):
            if name.split('.')[0] in self.packages:
                del sys.modules[name]

        sys.path.remove(self.tmpdir)
        shutil.rmtree(self.tmpdir, ignore_errors=True)


def make_model(label, name, fields, module=None, **meta):
    attrs = dict(fields)
    attrs['Meta'] = type(str('Meta'), (), dict(app_label=label, **meta))
    attrs['__module__'] = str(module or '%s.models' % label)

    return type(str(name), (models.Model,), attrs)


class WorldTestCase(EvolutionTestCase):
    def setUp(self):
        super(WorldTestCase, self).setUp()
        self.world = World()

    def tearDown(self):
        # A run that fails while preparing leaves this process-wide state
        # behind (prepare_tasks() has no try/finally around it).
        from django_evolution.utils.migrations import \
            clear_global_custom_migrations

        clear_global_custom_migrations()

        self.world.cleanup()
        super(WorldTestCase, self).tearDown()
from django.core.management.base import CommandError


class MarkAppliedTests(WorldTestCase):
    def test_repeated_label_is_recorded_once(self):
        """mark-evolution-applied records each requested evolution once"""
        world = self.world
        world.add_app('hcmarked')
        world.install()
        world.set_models('hcmarked', [
            make_model('hcmarked', 'Thing', {'a': models.IntegerField()}),
        ])
        world.upgrade()

        world.write_evolution('hcmarked', 'manual_fix', 'MUTATIONS = []\n')
        world.set_sequence('hcmarked', ['manual_fix'])

        call_command('mark-evolution-applied', 'manual_fix', 'manual_fix',
                     app_label='hcmarked', interactive=False, verbosity=0)

        with self.subTest('recorded exactly once'):
            self.assertEqual(world.recorded(),
                             Counter({('hcmarked', 'manual_fix'): 1}))

        with self.subTest('can be wiped again'):
            try:
                call_command('wipe-evolution', 'manual_fix',
                             app_label='hcmarked', interactive=False)
            except CommandError as e:
                self.fail('wipe-evolution failed: %s' % e)

            self.assertEqual(world.recorded(), Counter())
