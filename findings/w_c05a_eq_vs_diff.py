"""F-C05a witness: pairs of signatures for which `==` and diff() disagree
(C05: "two signatures compare equal exactly when their difference is empty
in both directions")."""
import _boot  # noqa
from django.db import models
from django_evolution.signature import (AppSignature, ConstraintSignature,
                                        FieldSignature, IndexSignature,
                                        ModelSignature)


def show(what, a, b):
    d1, d2 = a.diff(b), b.diff(a)
    eq = (a == b)
    print('%-55s ==: %-5s diff: %r / %r' % (what, eq, dict(d1) if hasattr(d1, 'items') else d1, dict(d2) if hasattr(d2, 'items') else d2))
    return eq == (not d1 and not d2)


ok = []
# FieldSignature: raw field_attrs vs default-aware diff
ok.append(show('Field null=False explicit vs absent',
               FieldSignature('f', models.CharField, {'null': False, 'max_length': 10}),
               FieldSignature('f', models.CharField, {'max_length': 10})))
# ModelSignature: attributes only __eq__ looks at
for attr, kw1, kw2 in (('table_name', {'table_name': 't1'}, {'table_name': 't2'}),
                       ('pk_column', {'table_name': 't', 'pk_column': 'id'}, {'table_name': 't', 'pk_column': 'pk'}),
                       ('db_tablespace', {'table_name': 't', 'db_tablespace': 'a'}, {'table_name': 't', 'db_tablespace': 'b'})):
    ok.append(show('Model differing only in %s' % attr,
                   ModelSignature(model_name='M', **kw1), ModelSignature(model_name='M', **kw2)))
# ModelSignature: set in __eq__, list in diff
def m(**kw):
    return ModelSignature(model_name='M', table_name='t', **kw)
a, b = m(index_together=[('a', 'b'), ('c', 'd')]), m(index_together=[('c', 'd'), ('a', 'b')])
ok.append(show('Model index_together reordered', a, b))
i1, i2 = IndexSignature(fields=['a'], name='i1'), IndexSignature(fields=['b'], name='i2')
a, b = m(), m()
a.add_index_sig(i1); a.add_index_sig(i2); b.add_index_sig(i2.clone()); b.add_index_sig(i1.clone())
ok.append(show('Model indexes reordered', a, b))
c1 = ConstraintSignature('c1', models.CheckConstraint, {'check': models.Q(a__gt=0)})
c2 = ConstraintSignature('c2', models.CheckConstraint, {'check': models.Q(b__gt=0)})
a, b = m(), m()
a.add_constraint_sig(c1); a.add_constraint_sig(c2); b.add_constraint_sig(c2.clone()); b.add_constraint_sig(c1.clone())
ok.append(show('Model constraints reordered', a, b))
# AppSignature: applied_migrations only in __eq__
ok.append(show('App differing only in applied_migrations',
               AppSignature('app', upgrade_method='migrations', applied_migrations=['0001_initial']),
               AppSignature('app', upgrade_method='migrations', applied_migrations=['0001_initial', '0002_x'])))
print('agreements:', ok)
assert all(ok), '== and diff() disagree for %d of %d pairs' % (ok.count(False), len(ok))
