"""F-C03b witness: ChangeField(db_index=True) merged into a SQLite table
rebuild as a non-first operation loses the index.

The rebuild (SQLiteAlterTableSQLResult.to_sql) recreates field indexes from
the fields of *its own* model (the model of the first merged operation).  The
db_index handler sets field.db_index on the model it was handed - a fresh
mutator.create_model() for every op - and queues 'ADD DB INDEX'.  In the
rebuild path the queued item is only replayed for bookkeeping
(`evolver.create_index(model, field)` with the result discarded), so the
index is created only if the handler happened to run on the rebuild's own
model, i.e. was the first op of the group.  One-at-a-time application creates
it."""
from django.db import models, connection
from django_evolution.compat import six
from django_evolution.mutations import AddField, ChangeField
from django_evolution.mutators import AppMutator
from django_evolution.tests.base_test_case import EvolutionTestCase
from django_evolution.tests.models import BaseTestModel
from django_evolution.tests.utils import ensure_test_db, execute_test_sql


class MBase(BaseTestModel):
    a = models.IntegerField()
    b = models.IntegerField()


class MDest(BaseTestModel):
    a = models.IntegerField()
    b = models.IntegerField(db_index=True)
    c = models.IntegerField(null=True)


def index_columns():
    cur = connection.cursor()
    cur.execute("SELECT sql FROM sqlite_master WHERE type = 'index' AND "
                "tbl_name = 'tests_testmodel' AND sql IS NOT NULL")
    return sorted(r[0] for r in cur.fetchall())


MUTATIONS = lambda: [
    AddField('TestModel', 'c', models.IntegerField, null=True),
    ChangeField('TestModel', 'b', initial=None, db_index=True),
]


class T(EvolutionTestCase):
    default_base_model = MBase

    def run_mutations(self, batches):
        end, end_sig = self.make_end_signatures(MDest, 'TestModel')
        state = self.database_state.clone()
        sig = self.start_sig.clone()
        with ensure_test_db(model_entries=six.iteritems(self.start),
                            end_model_entries=six.iteritems(end),
                            app_label='tests', database='default'):
            state.rescan_tables()
            for batch in batches:
                m = AppMutator(app_label='tests', project_sig=sig,
                               database_state=state, database='default')
                m.run_mutations(batch)
                execute_test_sql(m.to_sql(), database='default')
            return index_columns()

    def test_it(self):
        ms = MUTATIONS()
        one_at_a_time = self.run_mutations([[ms[0]], [ms[1]]])
        optimised = self.run_mutations([MUTATIONS()])
        print('one at a time:', one_at_a_time)
        print('optimised    :', optimised)
        self.assertEqual(one_at_a_time, optimised)


class MBase2(BaseTestModel):
    a = models.IntegerField()
    b = models.IntegerField(db_index=True)


class MDest2(BaseTestModel):
    a = models.IntegerField()
    b = models.IntegerField()
    c = models.IntegerField(null=True)


class TDrop(T):
    """The symmetric case: a merged, non-first ChangeField(db_index=False)
    drops the index and the rebuild then re-creates it."""
    default_base_model = MBase2

    def run_mutations(self, batches):
        end, end_sig = self.make_end_signatures(MDest2, 'TestModel')
        state = self.database_state.clone()
        sig = self.start_sig.clone()
        with ensure_test_db(model_entries=six.iteritems(self.start),
                            end_model_entries=six.iteritems(end),
                            app_label='tests', database='default'):
            state.rescan_tables()
            for batch in batches:
                m = AppMutator(app_label='tests', project_sig=sig,
                               database_state=state, database='default')
                m.run_mutations(batch)
                execute_test_sql(m.to_sql(), database='default')
            return index_columns()

    def test_it(self):
        mk = lambda: [
            AddField('TestModel', 'c', models.IntegerField, null=True),
            ChangeField('TestModel', 'b', initial=None, db_index=False),
        ]
        ms = mk()
        one_at_a_time = self.run_mutations([[ms[0]], [ms[1]]])
        optimised = self.run_mutations([mk()])
        print('one at a time:', one_at_a_time)
        print('optimised    :', optimised)
        self.assertEqual(one_at_a_time, optimised)
