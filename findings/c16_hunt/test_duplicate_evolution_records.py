"""Evolving a database that holds none of an app's models re-records the
app's whole evolution history on every run.

Project: app ``tests`` with two models, both routed to ``db_multi`` (one of
the splits of 2 models between two databases).  The app has two evolutions,
``e0`` and ``e1``; ``e1`` adds a column to each model.

Each database is evolved in turn, twice (the second round changes nothing:
same models, same evolutions).

Expected (the property): evolving ``default`` applies and records nothing
more than what is routed there, and a repeated run is a no-op.  On
``db_multi`` - where the models live - every evolution label is recorded
exactly once, and the second round records nothing.

Actual: on ``default`` the app never gets an app signature (correct: no model
is routed there), so ``EvolveAppTask.prepare()`` treats it as a brand-new app
on *every* run and queues the complete ``SEQUENCE`` as "new evolutions".
``Evolver.evolve()`` bulk-creates them again each time:
``['e0', 'e1', 'e0', 'e1']`` after two rounds.
"""

from __future__ import print_function, unicode_literals

import os
import sys
import tempfile
import types

from django.db import connections, models
from django.test.utils import override_settings

from django_evolution.compat.apps import (is_app_registered, register_app,
                                          register_app_models,
                                          unregister_app)
from django_evolution.evolve import Evolver
from django_evolution.models import Evolution, Version
from django_evolution.mutations import AddField
from django_evolution.tests import models as evo_test
from django_evolution.tests.base_test_case import EvolutionTestCase
from django_evolution.tests.models import BaseTestModel


DBS = ('default', 'db_multi')
EVOLUTIONS_MODULE = 'hunt_demo_dup_evolutions'


class SplitRouter(object):
    """Route the models of the ``tests`` app by model name."""

    def __init__(self, routes):
        self.routes = routes

    def _db(self, model):
        if model._meta.app_label == 'tests':
            return self.routes.get(model._meta.model_name)

        return None

    def db_for_read(self, model, **hints):
        return self._db(model)

    db_for_write = db_for_read

    def allow_migrate(self, db, app_label, model_name=None, **hints):
        if app_label == 'tests' and model_name in self.routes:
            return db == self.routes[model_name]

        return None


def make_models(version):
    class A(BaseTestModel):
        a = models.CharField(max_length=10)

        if version == 1:
            a2 = models.IntegerField(null=True)

        class Meta(BaseTestModel.Meta):
            db_table = 'tests_a'

    class B(BaseTestModel):
        b = models.CharField(max_length=10)

        if version == 1:
            b2 = models.IntegerField(null=True)

        class Meta(BaseTestModel.Meta):
            db_table = 'tests_b'

    return [('a', A), ('b', B)]


def set_models(model_infos):
    register_app_models('tests', model_infos, reset=True)

    if not is_app_registered(evo_test):
        register_app('tests', evo_test)


def install_evolutions_package(sequence, mutations_by_label):
    """Create an importable evolutions package for the ``tests`` app."""
    path = tempfile.mkdtemp()

    package = types.ModuleType(EVOLUTIONS_MODULE)
    package.__file__ = os.path.join(path, '__init__.py')
    package.__path__ = [path]
    package.SEQUENCE = list(sequence)
    sys.modules[EVOLUTIONS_MODULE] = package

    for label, mutations in mutations_by_label.items():
        name = '%s.%s' % (EVOLUTIONS_MODULE, label)
        module = types.ModuleType(name)
        module.__file__ = os.path.join(path, '%s.py' % label)
        module.MUTATIONS = mutations
        sys.modules[name] = module
        setattr(package, label, module)

    return package


def columns(db, table):
    with connections[db].cursor() as cursor:
        cursor.execute('PRAGMA table_info("%s")' % table)

        return [row[1] for row in cursor.fetchall()]


def recorded_labels(db):
    return list(
        Evolution.objects.using(db)
        .filter(app_label='tests')
        .order_by('pk')
        .values_list('label', flat=True))


def reset_databases():
    for db in DBS:
        with connections[db].cursor() as cursor:
            cursor.execute("SELECT name FROM sqlite_master WHERE "
                           "type='table' AND name LIKE 'tests_%'")

            for (name,) in cursor.fetchall():
                cursor.execute('DROP TABLE "%s"' % name)

        try:
            Evolution.objects.using(db).all().delete()
            Version.objects.using(db).all().delete()
        except Exception:
            pass


def evolve(db):
    evolver = Evolver(database_name=db)
    evolver.queue_evolve_app(evo_test)
    evolver.evolve()

    return evolver


class DuplicateEvolutionRecordsTests(EvolutionTestCase):
    def setUp(self):
        super(DuplicateEvolutionRecordsTests, self).setUp()
        reset_databases()

    def tearDown(self):
        reset_databases()

        for name in list(sys.modules):
            if name.startswith(EVOLUTIONS_MODULE):
                del sys.modules[name]

        try:
            unregister_app('tests')
        except Exception:
            pass

        super(DuplicateEvolutionRecordsTests, self).tearDown()

    def test_repeated_evolve_of_database_without_the_apps_models(self):
        """Evolving, twice, a database to which none of the app's models
        are routed
        """
        package = install_evolutions_package(
            sequence=['e0'],
            mutations_by_label={
                'e0': [],
                'e1': [
                    AddField('A', 'a2', models.IntegerField, null=True),
                    AddField('B', 'b2', models.IntegerField, null=True),
                ],
            })

        settings = {
            'CUSTOM_EVOLUTIONS': {
                evo_test.__name__: EVOLUTIONS_MODULE,
            },
        }
        routes = {'a': 'db_multi', 'b': 'db_multi'}

        with override_settings(DJANGO_EVOLUTION=settings):
            with self.override_db_routers([SplitRouter(routes)]):
                # Install the old models on both databases.
                set_models(make_models(0))

                for db in DBS:
                    evolve(db)

                self.assertEqual(recorded_labels('default'), ['e0'])
                self.assertEqual(recorded_labels('db_multi'), ['e0'])

                # New models, new evolution. Evolve each database in turn,
                # two rounds.
                set_models(make_models(1))
                package.SEQUENCE = ['e0', 'e1']

                per_round = []

                for i in range(2):
                    for db in DBS:
                        evolve(db)

                    per_round.append(dict(
                        (db, recorded_labels(db))
                        for db in DBS
                    ))

                # The evolution did what it should, where it should.
                self.assertEqual(columns('db_multi', 'tests_a'),
                                 ['id', 'a', 'a2'])
                self.assertEqual(columns('db_multi', 'tests_b'),
                                 ['id', 'b', 'b2'])
                self.assertEqual(columns('default', 'tests_a'), [])
                self.assertEqual(columns('default', 'tests_b'), [])

                print('round 1: %r' % per_round[0])
                print('round 2: %r' % per_round[1])

                # On the database that holds the models, every label is
                # recorded once, and the second round recorded nothing.
                self.assertEqual(per_round[0]['db_multi'], ['e0', 'e1'])
                self.assertEqual(per_round[1]['db_multi'],
                                 per_round[0]['db_multi'])

                # The same must hold on the database that holds none of
                # them: a label is never recorded twice ...
                for labels in (per_round[0]['default'],
                               per_round[1]['default']):
                    self.assertEqual(sorted(labels), sorted(set(labels)))

                # ... and the second (no-op) round recorded nothing.
                self.assertEqual(per_round[1]['default'],
                                 per_round[0]['default'])
