"""A failed evolution of one database makes the evolution of the next
database (in the same process) fail as well.

Project: app ``tests`` with ``A`` routed to ``default`` and ``B`` routed to
``db_multi``.  Both models get a new column.  The databases are evolved in
turn, each with its own Evolver:

* ``default`` is given an evolution that cannot be simulated
  (``AddField`` for the already existing ``A.a``), so preparing it raises
  ``SimulationFailure`` - a per-database failure.  (With the already-known
  ``is_mutable`` defect *every* evolution that touches models on both sides
  fails like this on the first database.)
* ``db_multi`` is then evolved with the mutations Django Evolution generates
  itself for that database (``hinted=True``).

Expected: the failure on ``default`` is confined to ``default``; evolving
``db_multi`` afterwards gives exactly the result it gives when ``default``
is not evolved at all (computed first, with the real code).

Actual: ``EvolveAppTask.prepare_tasks()`` registers the process-global custom
migration list, then prepares the tasks, and only clears the global list at
the very end.  The exception skips the clean-up, so every later
``Evolver`` - for any database - dies in ``prepare_tasks()`` with
``AssertionError: register_global_custom_migrations() cannot be called until
any existing migrations are unregistered``.
"""

from __future__ import print_function, unicode_literals

from django.db import connections, models

from django_evolution.compat.apps import (is_app_registered, register_app,
                                          register_app_models,
                                          unregister_app)
from django_evolution.errors import SimulationFailure
from django_evolution.evolve import EvolveAppTask, Evolver
from django_evolution.models import Evolution, Version
from django_evolution.mutations import AddField
from django_evolution.tests import models as evo_test
from django_evolution.tests.base_test_case import EvolutionTestCase
from django_evolution.tests.models import BaseTestModel
from django_evolution.utils.migrations import clear_global_custom_migrations


DBS = ('default', 'db_multi')


class SplitRouter(object):
    """Route the models of the ``tests`` app by model name."""

    def __init__(self, routes):
        self.routes = routes

    def _db(self, model):
        if model._meta.app_label == 'tests':
            return self.routes.get(model._meta.model_name)

        return None

    def db_for_read(self, model, **hints):
        return self._db(model)

    db_for_write = db_for_read

    def allow_migrate(self, db, app_label, model_name=None, **hints):
        if app_label == 'tests' and model_name in self.routes:
            return db == self.routes[model_name]

        return None


def make_models(version):
    class A(BaseTestModel):
        a = models.CharField(max_length=10)

        if version == 1:
            a2 = models.IntegerField(null=True)

        class Meta(BaseTestModel.Meta):
            db_table = 'tests_a'

    class B(BaseTestModel):
        b = models.CharField(max_length=10)

        if version == 1:
            b2 = models.IntegerField(null=True)

        class Meta(BaseTestModel.Meta):
            db_table = 'tests_b'

    return [('a', A), ('b', B)]


def set_models(model_infos):
    register_app_models('tests', model_infos, reset=True)

    if not is_app_registered(evo_test):
        register_app('tests', evo_test)


def schema(db):
    result = {}

    with connections[db].cursor() as cursor:
        cursor.execute("SELECT name FROM sqlite_master WHERE type='table'"
                       " AND name LIKE 'tests_%' ORDER BY name")

        for (name,) in cursor.fetchall():
            cursor.execute('PRAGMA table_info("%s")' % name)
            result[name] = [tuple(row[1:]) for row in cursor.fetchall()]

    return result


def reset_databases():
    for db in DBS:
        with connections[db].cursor() as cursor:
            cursor.execute("SELECT name FROM sqlite_master WHERE "
                           "type='table' AND name LIKE 'tests_%'")

            for (name,) in cursor.fetchall():
                cursor.execute('DROP TABLE "%s"' % name)

        try:
            Evolution.objects.using(db).all().delete()
            Version.objects.using(db).all().delete()
        except Exception:
            pass


def evolve(db, hinted=False, evolutions=None):
    evolver = Evolver(database_name=db, hinted=hinted)

    if evolutions is None:
        evolver.queue_evolve_app(evo_test)
    else:
        evolver.queue_task(EvolveAppTask(evolver=evolver,
                                         app=evo_test,
                                         evolutions=evolutions))

    evolver.evolve()

    return evolver


class FailedPrepareBlocksNextDatabaseTests(EvolutionTestCase):
    def setUp(self):
        super(FailedPrepareBlocksNextDatabaseTests, self).setUp()
        reset_databases()

    def tearDown(self):
        # Don't let the leaked state break unrelated tests.
        clear_global_custom_migrations()
        reset_databases()

        try:
            unregister_app('tests')
        except Exception:
            pass

        super(FailedPrepareBlocksNextDatabaseTests, self).tearDown()

    def _install_old_models(self):
        reset_databases()
        set_models(make_models(0))

        for db in DBS:
            evolve(db)

        set_models(make_models(1))

    def test_evolve_second_database_after_first_database_failed(self):
        """Evolving db_multi after the evolution of default failed"""
        routes = {'a': 'default', 'b': 'db_multi'}

        with self.override_db_routers([SplitRouter(routes)]):
            # Side 1: db_multi evolved on its own.
            self._install_old_models()
            evolve('db_multi', hinted=True)

            expected = dict((db, schema(db)) for db in DBS)
            self.assertEqual(
                [column[0] for column in expected['db_multi']['tests_b']],
                ['id', 'b', 'b2'])

            # Side 2: the same, but default is evolved first and fails.
            self._install_old_models()

            with self.assertRaises(SimulationFailure):
                evolve('default', evolutions=[
                    {
                        'label': 'broken',
                        'mutations': [
                            AddField('A', 'a', models.CharField,
                                     max_length=10, initial=''),
                        ],
                    },
                ])

            # This raises AssertionError from
            # register_global_custom_migrations().
            evolve('db_multi', hinted=True)

            self.assertEqual(dict((db, schema(db)) for db in DBS),
                             expected)
