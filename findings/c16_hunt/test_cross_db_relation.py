"""A model with a relation to a model routed elsewhere cannot be evolved.

Project: app ``tests`` with two models split by a router:

* ``Book``   -> database ``default``; has ``author = ForeignKey(Author,
  db_constraint=False)`` (the usual way to point at a row that lives in
  another database)
* ``Author`` -> database ``db_multi``

Both databases are installed by the real Evolver (this works, and each
database records exactly the model routed to it).  Then one plain column is
added to each model and each database is evolved in turn with the mutations
Django Evolution itself generates for that database (``hinted=True``, so the
known ``is_mutable`` defect is not involved: the hint for ``default`` only
contains ``AddField('Book', ...)``).

Expected (the property): evolving ``default`` adds ``Book.pages`` and leaves
``db_multi`` alone; evolving ``db_multi`` adds ``Author.born``; the result on
each database is identical to a fresh installation of the new models.

Actual: evolving ``default`` raises ``MissingSignatureError: Unable to find a
model signature for "tests.Author"`` - the mock model for ``Book`` looks the
related model up in the per-database project signature, which (correctly)
does not contain the model routed elsewhere.  ``Book`` can never be altered
again.
"""

from __future__ import print_function, unicode_literals

from django.db import connections, models

from django_evolution.compat.apps import (is_app_registered, register_app,
                                          register_app_models,
                                          unregister_app)
from django_evolution.evolve import Evolver
from django_evolution.models import Evolution, Version
from django_evolution.tests import models as evo_test
from django_evolution.tests.base_test_case import EvolutionTestCase
from django_evolution.tests.models import BaseTestModel


DBS = ('default', 'db_multi')


class SplitRouter(object):
    """Route the models of the ``tests`` app by model name."""

    def __init__(self, routes):
        self.routes = routes

    def _db(self, model):
        if model._meta.app_label == 'tests':
            return self.routes.get(model._meta.model_name)

        return None

    def db_for_read(self, model, **hints):
        return self._db(model)

    db_for_write = db_for_read

    def allow_relation(self, obj1, obj2, **hints):
        return True

    def allow_migrate(self, db, app_label, model_name=None, **hints):
        if app_label == 'tests' and model_name in self.routes:
            return db == self.routes[model_name]

        return None


def make_models(version):
    """Return [(name, model)] for the old (0) or new (1) project."""
    class Author(BaseTestModel):
        name = models.CharField(max_length=20)

        if version == 1:
            born = models.IntegerField(null=True)

        class Meta(BaseTestModel.Meta):
            db_table = 'tests_author'

    class Book(BaseTestModel):
        title = models.CharField(max_length=20)
        author = models.ForeignKey(Author, null=True, db_constraint=False,
                                   on_delete=models.DO_NOTHING)

        if version == 1:
            pages = models.IntegerField(null=True)

        class Meta(BaseTestModel.Meta):
            db_table = 'tests_book'

    return [('author', Author), ('book', Book)]


def set_models(model_infos):
    register_app_models('tests', model_infos, reset=True)

    if not is_app_registered(evo_test):
        register_app('tests', evo_test)


def schema(db):
    """Return the schema of all tests_* tables on a database."""
    result = {}

    with connections[db].cursor() as cursor:
        cursor.execute("SELECT name FROM sqlite_master WHERE type='table'"
                       " AND name LIKE 'tests_%' ORDER BY name")

        for (name,) in cursor.fetchall():
            cursor.execute('PRAGMA table_info("%s")' % name)
            result[name] = [tuple(row[1:]) for row in cursor.fetchall()]

    return result


def stored_model_names(db):
    app_sig = (Version.objects.current_version(using=db)
               .signature.get_app_sig('tests'))

    if app_sig is None:
        return None

    return sorted(model_sig.model_name for model_sig in app_sig.model_sigs)


def reset_databases():
    for db in DBS:
        with connections[db].cursor() as cursor:
            cursor.execute("SELECT name FROM sqlite_master WHERE "
                           "type='table' AND name LIKE 'tests_%'")

            for (name,) in cursor.fetchall():
                cursor.execute('DROP TABLE "%s"' % name)

        try:
            Evolution.objects.using(db).all().delete()
            Version.objects.using(db).all().delete()
        except Exception:
            pass


def evolve(db, hinted=False):
    evolver = Evolver(database_name=db, hinted=hinted)
    evolver.queue_evolve_app(evo_test)
    evolver.evolve()

    return evolver


class CrossDatabaseRelationTests(EvolutionTestCase):
    def setUp(self):
        super(CrossDatabaseRelationTests, self).setUp()
        reset_databases()

    def tearDown(self):
        reset_databases()

        try:
            unregister_app('tests')
        except Exception:
            pass

        super(CrossDatabaseRelationTests, self).tearDown()

    def test_evolve_model_with_relation_to_model_routed_elsewhere(self):
        """Evolving a database whose model points at a model routed to the
        other database
        """
        routes = {'book': 'default', 'author': 'db_multi'}

        with self.override_db_routers([SplitRouter(routes)]):
            # Side 1: a fresh installation of the NEW models, computed by
            # the real code.
            set_models(make_models(1))

            for db in DBS:
                evolve(db)

            fresh_schema = dict((db, schema(db)) for db in DBS)
            fresh_models = dict((db, stored_model_names(db)) for db in DBS)

            self.assertEqual(fresh_models, {'default': ['Book'],
                                            'db_multi': ['Author']})

            # Side 2: install the OLD models, then evolve each database.
            reset_databases()
            set_models(make_models(0))

            for db in DBS:
                evolve(db)

            self.assertEqual(sorted(schema('default')), ['tests_book'])
            self.assertEqual(sorted(schema('db_multi')), ['tests_author'])

            set_models(make_models(1))

            for db in DBS:
                other_db = [_db for _db in DBS if _db != db][0]
                other_before = schema(other_db)

                # This raises MissingSignatureError for 'default'.
                evolve(db, hinted=True)

                self.assertEqual(schema(other_db), other_before)
                self.assertEqual(schema(db), fresh_schema[db])
                self.assertEqual(stored_model_names(db), fresh_models[db])
