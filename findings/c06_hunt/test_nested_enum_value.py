"""Defect: a signature holding a member of an enum that is nested in another
class (``Order.Status.DONE``, the idiomatic way to declare Django choices)
is written, but the stored row can never be loaded again.

EnumSerialization.serialize_to_signature() stores the enum type as
``'%s.%s' % (cls.__module__, cls.__name__)`` -- ``myapp.models.Status`` for
``myapp.models.Order.Status`` -- and deserialize_from_signature() does
``getattr(import_module(module), name)``. For a nested enum that attribute
does not exist on the module, so loading the Version row raises
``ImportError: Unable to locate enum type ...`` (and with it every later
"evolve" run, which starts by loading the latest Version).
"""

from __future__ import unicode_literals

from django.db import models
from django.db.models import CheckConstraint, Q

from django_evolution.tests.base_test_case import EvolutionTestCase
from django_evolution.tests.models import BaseTestModel

from _roundtrip import assert_reads_back


class TopLevelStatus(models.TextChoices):
    NEW = 'new', 'New'
    DONE = 'done', 'Done'


class Order(object):
    """Stands in for any class (usually a model) that nests its choices."""

    class Status(models.TextChoices):
        NEW = 'new', 'New'
        DONE = 'done', 'Done'


class TopLevelEnumModel(BaseTestModel):
    status = models.CharField(max_length=10)

    class Meta(BaseTestModel.Meta):
        constraints = [
            CheckConstraint(check=~Q(status=TopLevelStatus.DONE),
                            name='status_check'),
        ]


class NestedEnumModel(BaseTestModel):
    status = models.CharField(max_length=10)

    class Meta(BaseTestModel.Meta):
        constraints = [
            CheckConstraint(check=~Q(status=Order.Status.DONE),
                            name='status_check'),
        ]


class NestedEnumRoundTripTests(EvolutionTestCase):
    def test_control_top_level_enum(self):
        """Control: CheckConstraint(Q(status=<module-level enum member>))
        reads back as written
        """
        self.set_base_model(TopLevelEnumModel)
        assert_reads_back(self, self.start_sig)

    def test_nested_enum(self):
        """CheckConstraint(Q(status=Order.Status.DONE)) reads back as written
        """
        self.set_base_model(NestedEnumModel)
        assert_reads_back(self, self.start_sig)
