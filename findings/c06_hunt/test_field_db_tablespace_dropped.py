"""Defect: a field's ``db_tablespace`` attribute is written to the stored
signature but silently dropped when the signature is read back.

FieldSignature.serialize() writes every entry of ``field_attrs``, but
FieldSignature.deserialize() only reads the attribute names listed in
FieldSignature._ATTRIBUTE_DEFAULTS. The ``'*'`` table there lists
``'db_table_comment': global_settings.DEFAULT_TABLESPACE`` -- the key is a
slip for ``'db_tablespace'`` (``db_table_comment`` is a *model* Meta option
and never a field attribute; the default value paired with it is the
tablespace default). So ``db_tablespace`` -- which the backend does consume,
see db/common.py ``field.db_tablespace or model._meta.db_tablespace`` -- is
not in the whitelist: the reloaded field signature differs from the written
one, the diff reports the field as changed, and the re-serialised text has
lost the attribute.
"""

from __future__ import unicode_literals

from django.db import models

from django_evolution.mutations import AddField
from django_evolution.signature import (AppSignature, FieldSignature,
                                        ModelSignature, ProjectSignature)
from django_evolution.tests.base_test_case import EvolutionTestCase
from django_evolution.tests.models import BaseTestModel

from _roundtrip import assert_reads_back


class TablespaceBaseModel(BaseTestModel):
    name = models.CharField(max_length=20)


def _make_project_sig(field_attrs):
    model_sig = ModelSignature(model_name='TestModel',
                               table_name='tests_testmodel',
                               pk_column='id')
    model_sig.add_field_sig(FieldSignature(field_name='id',
                                           field_type=models.AutoField,
                                           field_attrs={'primary_key': True}))
    model_sig.add_field_sig(FieldSignature(field_name='name',
                                           field_type=models.CharField,
                                           field_attrs=field_attrs))

    app_sig = AppSignature(app_id='tests')
    app_sig.add_model_sig(model_sig)

    project_sig = ProjectSignature()
    project_sig.add_app_sig(app_sig)

    return project_sig


class FieldDbTablespaceRoundTripTests(EvolutionTestCase):
    def test_control_other_field_attrs(self):
        """Control: a field signature with max_length/db_column/db_index reads
        back as written
        """
        assert_reads_back(self, _make_project_sig({
            'max_length': 20,
            'db_index': True,
            'db_column': 'my_col',
        }))

    def test_direct_construction(self):
        """A field signature with db_tablespace reads back as written"""
        assert_reads_back(self, _make_project_sig({
            'max_length': 20,
            'db_index': True,
            'db_tablespace': 'my_tablespace',
        }))

    def test_signature_produced_by_add_field(self):
        """The signature produced by AddField(db_tablespace=...) reads back as
        written
        """
        self.set_base_model(TablespaceBaseModel)

        project_sig = self.start_sig.clone()
        AddField('TestModel', 'added', models.CharField, max_length=10,
                 db_index=True, db_tablespace='my_tablespace',
                 initial='').run_simulation(
            app_label='tests',
            project_sig=project_sig,
            database_state=self.database_state.clone(),
            database='default')

        # Make sure the real mutation code did record the attribute.
        field_sig = (
            project_sig
            .get_app_sig('tests')
            .get_model_sig('TestModel')
            .get_field_sig('added')
        )
        self.assertEqual(field_sig.get_attr_value('db_tablespace'),
                         'my_tablespace')

        assert_reads_back(self, project_sig)
