"""Defect (low severity): a reloaded signature does not re-serialise to the
text it was loaded from when a field's attributes were recorded in another
order than FieldSignature._ATTRIBUTE_DEFAULTS.

FieldSignature.serialize() writes ``field_attrs`` in the dictionary's own
order, and ChangeField.simulate() *appends* the changed attributes
(``field_sig.field_attrs.update(self.field_attrs)``). But
FieldSignature.deserialize() rebuilds the dictionary by iterating over
_iter_attrs_for_field_type() -- i.e. in the order of the defaults table, not
in the stored order. The logical content is the same (==, empty diffs), but
the stored text is rewritten differently on the next save, which violates
"re-serialises to the same stored text".
"""

from __future__ import unicode_literals

from django.db import models

from django_evolution.diff import Diff
from django_evolution.mutations import ChangeField
from django_evolution.tests.base_test_case import EvolutionTestCase
from django_evolution.tests.models import BaseTestModel

from _roundtrip import assert_reads_back


class AttrOrderBaseModel(BaseTestModel):
    value = models.IntegerField(db_index=True)


class AttrOrderDestModel(BaseTestModel):
    value = models.IntegerField(db_index=True, null=True)


class FieldAttrOrderRoundTripTests(EvolutionTestCase):
    def test_control_signature_generated_from_model(self):
        """Control: the signature generated from the destination model reads
        back as written
        """
        self.set_base_model(AttrOrderBaseModel)
        end, end_sig = self.make_end_signatures(AttrOrderDestModel,
                                                'TestModel')
        assert_reads_back(self, end_sig)

    def test_signature_evolved_with_change_field(self):
        """The signature evolved with ChangeField reads back as written"""
        self.set_base_model(AttrOrderBaseModel)
        end, end_sig = self.make_end_signatures(AttrOrderDestModel,
                                                'TestModel')

        # This is what the evolver does: simulate the mutations on the stored
        # signature, check the result against the models, and save it.
        evolved_sig = self.start_sig.clone()
        ChangeField('TestModel', 'value', initial=None,
                    null=True).run_simulation(
            app_label='tests',
            project_sig=evolved_sig,
            database_state=self.database_state.clone(),
            database='default')

        self.assertTrue(Diff(evolved_sig, end_sig).is_empty())
        self.assertEqual(evolved_sig, end_sig)

        assert_reads_back(self, evolved_sig)
