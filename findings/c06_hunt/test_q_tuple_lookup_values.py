"""Defect: a Q() whose lookup value is a tuple never reads back equal.

``Q(status__in=('a', 'b'))`` / ``Q(value__range=(1, 10))`` are the usual way
to write an index condition or a check constraint. QSerialization stores the
child ``('status__in', ('a', 'b'))`` via TupleSerialization, JSON turns the
inner tuple into a list, and the reloaded object is
``Q(status__in=['a', 'b'])``. django.utils.tree.Node.__eq__ compares
``children`` by value, so the reloaded Q is != the original Q, and
IndexSignature.__eq__ / ConstraintSignature.__eq__ (dict.__eq__ on attrs)
report the index/constraint as changed on every run.

This is not the known "ConstraintSignature keeps deconstruct() tuples"
problem: the tuple here is nested inside a Q object (and it equally affects
IndexSignature, whose top-level tuples *are* normalised). The controls use the
very same models with list values and pass.
"""

from __future__ import unicode_literals

from django.db import models
from django.db.models import CheckConstraint, Index, Q

from django_evolution.tests.base_test_case import EvolutionTestCase
from django_evolution.tests.models import BaseTestModel

from _roundtrip import assert_reads_back


class IndexCondTupleModel(BaseTestModel):
    status = models.CharField(max_length=20)
    value = models.IntegerField()

    class Meta(BaseTestModel.Meta):
        indexes = [
            Index(fields=['value'], name='cond_idx',
                  condition=Q(status__in=('new', 'open'))),
        ]


class IndexCondListModel(BaseTestModel):
    status = models.CharField(max_length=20)
    value = models.IntegerField()

    class Meta(BaseTestModel.Meta):
        indexes = [
            Index(fields=['value'], name='cond_idx',
                  condition=Q(status__in=['new', 'open'])),
        ]


class CheckTupleModel(BaseTestModel):
    status = models.CharField(max_length=20)
    value = models.IntegerField()

    class Meta(BaseTestModel.Meta):
        constraints = [
            CheckConstraint(check=(Q(value__range=(1, 10)) |
                                   ~Q(status__in=('x', 'y'))),
                            name='my_check'),
        ]


class CheckListModel(BaseTestModel):
    status = models.CharField(max_length=20)
    value = models.IntegerField()

    class Meta(BaseTestModel.Meta):
        constraints = [
            CheckConstraint(check=(Q(value__range=[1, 10]) |
                                   ~Q(status__in=['x', 'y'])),
                            name='my_check'),
        ]


class QTupleLookupValueRoundTripTests(EvolutionTestCase):
    def test_control_index_condition_with_list_value(self):
        """Control: Index(condition=Q(x__in=[...])) reads back as written"""
        self.set_base_model(IndexCondListModel)
        assert_reads_back(self, self.start_sig)

    def test_index_condition_with_tuple_value(self):
        """Index(condition=Q(x__in=(...))) reads back as written"""
        self.set_base_model(IndexCondTupleModel)
        assert_reads_back(self, self.start_sig)

    def test_control_check_constraint_with_list_values(self):
        """Control: CheckConstraint(Q(x__range=[...])) reads back as written
        """
        self.set_base_model(CheckListModel)
        assert_reads_back(self, self.start_sig)

    def test_check_constraint_with_tuple_values(self):
        """CheckConstraint(Q(x__range=(...))) reads back as written"""
        self.set_base_model(CheckTupleModel)
        assert_reads_back(self, self.start_sig)
