"""Defect: a functional index (Index(*expressions)) never reads back equal.

IndexSignature.from_index() keeps Index.deconstruct()[1], a *tuple* of
expressions. The stored JSON turns it into a list, and
IndexSignature.__eq__ compares ``self.expressions == other.expressions``
(tuple vs. list => always unequal). A database whose stored signature is
exactly the signature of the current models is therefore reported as needing
an evolution ("indexes" meta changed) on every run.
"""

from __future__ import unicode_literals

from django.db import models
from django.db.models import F, Index
from django.db.models.functions import Lower

from django_evolution.tests.base_test_case import EvolutionTestCase
from django_evolution.tests.models import BaseTestModel

from _roundtrip import assert_reads_back


class IndexExprModel(BaseTestModel):
    name = models.CharField(max_length=20)
    value = models.IntegerField()

    class Meta(BaseTestModel.Meta):
        indexes = [
            Index(Lower('name'), F('value').desc(), name='expr_idx'),
        ]


class FieldsOnlyIndexModel(BaseTestModel):
    name = models.CharField(max_length=20)
    value = models.IntegerField()

    class Meta(BaseTestModel.Meta):
        indexes = [
            Index(fields=['name', '-value'], name='plain_idx'),
        ]


class IndexExpressionsRoundTripTests(EvolutionTestCase):
    def test_control_fields_only_index(self):
        """Control: an Index(fields=...) signature reads back as written"""
        self.set_base_model(FieldsOnlyIndexModel)
        assert_reads_back(self, self.start_sig)

    def test_expression_index(self):
        """An Index(*expressions) signature reads back as written"""
        self.set_base_model(IndexExprModel)

        # Both sides come from the real code: the signature generated from
        # the model, and the same signature after Version.save()/reload.
        assert_reads_back(self, self.start_sig)
