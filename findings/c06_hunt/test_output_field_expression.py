"""Defect: a signature holding an expression with ``output_field=`` cannot be
written at all.

``Cast('value', output_field=IntegerField())``,
``ExpressionWrapper(..., output_field=...)`` and
``Value(1, output_field=...)`` are ordinary members of a functional index or
of a check constraint. ModelSignature.from_model() accepts them, but
serialising the signature (Version.save(), and also hint generation through
serialize_to_python) blows up with::

    ValueError: too many values to unpack (expected 3)

because DeconstructedSerialization._deconstruct_object() assumes every
``deconstruct()`` returns ``(path, args, kwargs)``, while
``django.db.models.Field.deconstruct()`` returns
``(name, path, args, kwargs)``.
"""

from __future__ import unicode_literals

from django.db import models
from django.db.models import (CheckConstraint, ExpressionWrapper, F, Index, Q,
                              Value)
from django.db.models.functions import Cast

from django_evolution.tests.base_test_case import EvolutionTestCase
from django_evolution.tests.models import BaseTestModel

from _roundtrip import assert_reads_back


class CastIndexModel(BaseTestModel):
    name = models.CharField(max_length=20)
    value = models.IntegerField()

    class Meta(BaseTestModel.Meta):
        indexes = [
            Index(Cast('name', output_field=models.IntegerField()),
                  name='cast_idx'),
        ]


class WrapperIndexModel(BaseTestModel):
    name = models.CharField(max_length=20)
    value = models.IntegerField()

    class Meta(BaseTestModel.Meta):
        indexes = [
            Index(ExpressionWrapper(F('value') * 2,
                                    output_field=models.IntegerField()),
                  name='wrap_idx'),
        ]


class ValueCheckModel(BaseTestModel):
    name = models.CharField(max_length=20)
    value = models.IntegerField()

    class Meta(BaseTestModel.Meta):
        constraints = [
            CheckConstraint(
                check=Q(value__gt=Value(3,
                                        output_field=models.IntegerField())),
                name='value_check'),
        ]


class PlainValueCheckModel(BaseTestModel):
    name = models.CharField(max_length=20)
    value = models.IntegerField()

    class Meta(BaseTestModel.Meta):
        constraints = [
            CheckConstraint(check=Q(value__gt=Value(3)),
                            name='value_check'),
        ]


class OutputFieldExpressionRoundTripTests(EvolutionTestCase):
    def test_control_value_without_output_field(self):
        """Control: CheckConstraint(Q(x__gt=Value(3))) reads back as written
        """
        self.set_base_model(PlainValueCheckModel)
        assert_reads_back(self, self.start_sig)

    def test_index_with_cast(self):
        """Index(Cast(..., output_field=...)) reads back as written"""
        self.set_base_model(CastIndexModel)
        assert_reads_back(self, self.start_sig)

    def test_index_with_expression_wrapper(self):
        """Index(ExpressionWrapper(..., output_field=...)) reads back as
        written
        """
        self.set_base_model(WrapperIndexModel)
        assert_reads_back(self, self.start_sig)

    def test_check_constraint_with_value_output_field(self):
        """CheckConstraint(Q(x__gt=Value(3, output_field=...))) reads back as
        written
        """
        self.set_base_model(ValueCheckModel)
        assert_reads_back(self, self.start_sig)
