"""Shared helper for the hunt demonstrations (not a test module).

Everything here goes through the REAL storage path: the signature is saved
with ``Version.objects.create()`` on the SQLite test database, the raw column
text is fetched with ``values_list``, and the row is re-loaded with
``Version.objects.get()`` (which runs ``SignatureField.to_python`` ->
``json.loads(object_pairs_hook=OrderedDict)`` ->
``ProjectSignature.deserialize``).
"""

from __future__ import unicode_literals

from django_evolution.diff import Diff
from django_evolution.models import Version


def store_and_reload(project_sig):
    """Save a project signature in a Version row and read everything back.

    Returns:
        dict:
        ``stored_text`` (what was written), ``reloaded`` (the ProjectSignature
        read back) and ``restored_text`` (what the reloaded signature writes
        when saved again).
    """
    version = Version.objects.create(signature=project_sig)

    stored_text = (
        Version.objects
        .filter(pk=version.pk)
        .values_list('signature', flat=True)
    )[0]

    reloaded = Version.objects.get(pk=version.pk).signature
    assert reloaded is not project_sig

    version2 = Version.objects.create(signature=reloaded)
    restored_text = (
        Version.objects
        .filter(pk=version2.pk)
        .values_list('signature', flat=True)
    )[0]

    return {
        'stored_text': stored_text,
        'reloaded': reloaded,
        'restored_text': restored_text,
    }


def assert_reads_back(testcase, project_sig):
    """Assert the whole round-trip property for one project signature."""
    info = store_and_reload(project_sig)
    reloaded = info['reloaded']

    testcase.assertEqual(
        dict(reloaded.diff(project_sig)), {},
        'reloaded.diff(original) is not empty')
    testcase.assertEqual(
        dict(project_sig.diff(reloaded)), {},
        'original.diff(reloaded) is not empty')
    testcase.assertTrue(
        Diff(reloaded, project_sig).is_empty(ignore_apps=False),
        'Diff(stored, fresh) (what "evolve" computes) is not empty:\n%s'
        % Diff(reloaded, project_sig))
    testcase.assertTrue(reloaded == project_sig,
                        'reloaded signature != original signature')
    testcase.assertTrue(project_sig == reloaded,
                        'original signature != reloaded signature')
    testcase.assertEqual(info['restored_text'], info['stored_text'],
                         'the reloaded signature re-serialises differently')

    return info
