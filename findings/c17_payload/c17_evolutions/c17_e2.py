from __future__ import unicode_literals

from django_evolution.mutations import ChangeField


# Must be applied after migrations_app's second migration.
AFTER_MIGRATIONS = [
    ('migrations_app', '0002_add_field'),
]

MUTATIONS = [
    ChangeField('EvolutionsAppTestModel', 'char_field',
                max_length=10, null=True),
]
