from __future__ import unicode_literals

from django.db import models

from django_evolution.mutations import AddField


# Must be applied before migrations_app's second migration.
BEFORE_MIGRATIONS = [
    ('migrations_app', '0002_add_field'),
]

MUTATIONS = [
    AddField('EvolutionsAppTestModel', 'char_field2', models.CharField,
             max_length=20, null=True),
]
