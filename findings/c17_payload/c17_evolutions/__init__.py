"""On-disk evolutions for django_evolution.tests.evolutions_app (C17 witness).

Hooked up through the documented project setting

    DJANGO_EVOLUTION = {
        'CUSTOM_EVOLUTIONS': {
            'django_evolution.tests.evolutions_app': 'c17_evolutions',
        },
    }

Starting point: EvolutionsAppTestModel(char_field=CharField(max_length=10)).
End point: the real model in django_evolution/tests/evolutions_app/models.py.
"""

from __future__ import unicode_literals


SEQUENCE = [
    'c17_e1',
    'c17_e2',
]
