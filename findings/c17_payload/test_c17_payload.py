"""Triage witness for C17: payload of applying_evolution/applied_evolution.

Property under examination:

    "The evolutions [the applying_evolution/applied_evolution signals] carry
    are exactly those whose SQL was executed between the paired signals."

Suspicion: EvolveAppTask.execute_tasks() calls, per evolutions batch,

    task.execute(sql_executor=sql_executor, sql=task_sql, **kwargs)

without ``evolutions=``, so EvolveAppTask.execute() falls back to
``self.new_evolutions`` (ALL pending evolutions of the task) for the signal
payload, even when only a subset of them is in this batch.

Scenario (all real code: EvolveAppTask.prepare_tasks -> _build_migrations_info
-> _build_evolutions_graph -> _build_batches, then EvolveAppTask.execute_tasks;
nothing in django_evolution is stubbed or patched):

* ``evolutions_app`` (evolution-managed, table already in the database) has
  two pending evolutions e1, e2 with

      e1  BEFORE migrations_app:0002_add_field
      e2  AFTER  migrations_app:0002_add_field

* ``migrations_app`` (migration-managed, on-disk migrations) has 0001_initial
  recorded as applied and 0002_add_field pending.

So the only valid order is  e1 -> migrations_app:0002_add_field -> e2  and the
task's evolutions must be split into two evolution batches with a migration
batch in between.

Each test records a timeline of signals and of every schema-changing SQL
statement sent to the database (connection.execute_wrapper), introspects the
real table at each signal, and asserts that each signal pair's ``evolutions``
payload names exactly the evolutions that were really applied in its window.

Three variants:

1. custom ``evolutions=[...]`` dicts with before_migrations/after_migrations,
   driven by EvolveAppTask.prepare_tasks() + EvolveAppTask.execute_tasks()
2. same, driven by Evolver.evolve()
3. real on-disk evolution files (triage/c17_evolutions/c17_e1.py with
   BEFORE_MIGRATIONS, c17_e2.py with AFTER_MIGRATIONS -- the documented
   module-level constants), attached to evolutions_app through the documented
   DJANGO_EVOLUTION['CUSTOM_EVOLUTIONS'] project setting, tasks created as
   plain EvolveAppTask(evolver, app) and driven by Evolver.evolve() -- i.e.
   the "standard case" branch of _build_batches, not the testing-only
   ``evolutions=`` argument.
"""

from __future__ import print_function, unicode_literals

import os
import pprint
import sys
from collections import OrderedDict

from django.db import DEFAULT_DB_ALIAS, connections, models

from django_evolution.compat.apps import get_app
from django_evolution.compat.db import sql_create_app
from django_evolution.consts import UpgradeMethod
from django_evolution.evolve import EvolveAppTask, Evolver
from django_evolution.models import Evolution, Version
from django_evolution.mutations import AddField
from django_evolution.signals import (applied_evolution,
                                      applied_migration,
                                      applying_evolution,
                                      applying_migration)
from django_evolution.signature import AppSignature
from django_evolution.tests import test_evolver as _te
from django_evolution.tests.base_test_case import MigrationsTestsMixin
from django_evolution.tests.evolutions_app.models import EvolutionsAppTestModel
from django_evolution.tests.migrations_app.models import MigrationsAppTestModel
from django_evolution.tests.models import BaseTestModel
from django_evolution.tests.utils import execute_test_sql, replace_models
from django_evolution.utils.evolutions import (get_evolution_dependencies,
                                               get_evolution_sequence)


EVO_TABLE = EvolutionsAppTestModel._meta.db_table
MIG_TABLE = MigrationsAppTestModel._meta.db_table
MIG_TARGET = ('migrations_app', '0002_add_field')


def _stmt_text(stmt):
    """Return the SQL text of an entry of a batch's ``sql`` list."""
    # Entries are either plain strings or (sql, params) tuples.
    if isinstance(stmt, tuple):
        return stmt[0]

    return stmt


class C17PayloadTests(MigrationsTestsMixin, _te.BaseEvolverTestCase):
    """Witness for the applying/applied_evolution payload defect."""

    def setUp(self):
        super(C17PayloadTests, self).setUp()

        self.timeline = []
        applying_evolution.connect(self._on_applying_evolution)
        applied_evolution.connect(self._on_applied_evolution)
        applying_migration.connect(self._on_applying_migration)
        applied_migration.connect(self._on_applied_migration)

    def tearDown(self):
        applying_evolution.disconnect(self._on_applying_evolution)
        applied_evolution.disconnect(self._on_applied_evolution)
        applying_migration.disconnect(self._on_applying_migration)
        applied_migration.disconnect(self._on_applied_migration)

        super(C17PayloadTests, self).tearDown()

    # ------------------------------------------------------------------
    # Recording
    # ------------------------------------------------------------------
    def _snapshot(self, table):
        """Return {column name: null_ok} for a table, in column order."""
        connection = connections[DEFAULT_DB_ALIAS]

        with connection.cursor() as cursor:
            return OrderedDict(
                (info.name, bool(info.null_ok))
                for info in connection.introspection.get_table_description(
                    cursor, table)
            )

    def _on_applying_evolution(self, sender, task, evolutions, **kwargs):
        self.timeline.append(('applying_evolution', {
            'task': task,
            'labels': [e.label for e in evolutions],
            'snapshot': self._snapshot(EVO_TABLE),
        }))

    def _on_applied_evolution(self, sender, task, evolutions, **kwargs):
        self.timeline.append(('applied_evolution', {
            'task': task,
            'labels': [e.label for e in evolutions],
            'snapshot': self._snapshot(EVO_TABLE),
        }))

    def _on_applying_migration(self, sender, migration, **kwargs):
        self.timeline.append(('applying_migration',
                              (migration.app_label, migration.name)))

    def _on_applied_migration(self, sender, migration, **kwargs):
        self.timeline.append(('applied_migration',
                              (migration.app_label, migration.name)))

    def _sql_wrapper(self, execute, sql, params, many, context):
        # Only statements touching the two test tables are interesting. This
        # drops the introspection queries issued by our own signal handlers
        # and the bookkeeping (django_migrations, django_evolution,
        # django_project_version) rows.
        text = '%s' % (sql,)
        first_word = text.lstrip().split(' ', 1)[0].upper()

        if (first_word in ('ALTER', 'CREATE', 'DROP', 'INSERT', 'UPDATE') and
            ('TEMP_TABLE' in text or EVO_TABLE in text or MIG_TABLE in text)):
            self.timeline.append(('sql', text))

        return execute(sql, params, many, context)

    # ------------------------------------------------------------------
    # Database / signature setup (same recipe as
    # EvolveAppTaskTests._setup_pre_upgrade, restricted to two apps)
    # ------------------------------------------------------------------
    def _setup_pre_upgrade(self, make_old_evolutions_app_model,
                           applied_evolutions):
        """Put the pre-upgrade tables, signature and history in the database.

        Args:
            make_old_evolutions_app_model (callable):
                Returns the pre-upgrade version of EvolutionsAppTestModel, or
                ``None`` to use the current on-disk model. (A factory, because
                the class must not exist yet when ensure_deleted_apps() runs:
                it shares its table name with the real model and would make
                the table be dropped twice.)

            applied_evolutions (list of tuple):
                Evolutions to record as already applied.
        """
        self.ensure_deleted_apps()

        if make_old_evolutions_app_model is not None:
            old_evolutions_app_model = make_old_evolutions_app_model()
        else:
            old_evolutions_app_model = None

        class InitialMigrationsAppTestModel(BaseTestModel):
            # State of migrations_app after 0001_initial only.
            char_field = models.CharField(max_length=10)

            class Meta:
                app_label = 'tests'
                db_table = MIG_TABLE

        apps_to_models = {
            'migrations_app': [
                ('MigrationsAppTestModel', InitialMigrationsAppTestModel),
            ],
        }

        if old_evolutions_app_model is not None:
            apps_to_models['evolutions_app'] = [
                ('EvolutionsAppTestModel', old_evolutions_app_model),
            ]

        evolutions_app = get_app('evolutions_app')
        migrations_app = get_app('migrations_app')

        version = Version.objects.current_version()
        project_sig = version.signature
        sql = []

        with replace_models(database_state=self.database_state,
                            apps_to_models=apps_to_models):
            for app in (evolutions_app, migrations_app):
                project_sig.add_app_sig(AppSignature.from_app(
                    app, database=DEFAULT_DB_ALIAS))
                sql += sql_create_app(app=app, db_name=DEFAULT_DB_ALIAS)

        execute_test_sql(sql, database=DEFAULT_DB_ALIAS)
        version.save()

        self.assertFalse(Evolution.objects.exists())

        if applied_evolutions:
            self.record_evolutions(version, applied_evolutions)

        # Only migrations_app:0002_add_field is pending.
        self.record_applied_migrations([
            ('migrations_app', '0001_initial'),
        ])

        self.assertNotIn('added_field', self._snapshot(MIG_TABLE))

        return evolutions_app, migrations_app

    # ------------------------------------------------------------------
    # Shared driver + checks
    # ------------------------------------------------------------------
    def _run_and_check(self, evolver, evo_task, mig_task, labels, detectors,
                       use_evolve):
        """Run the upgrade with the real code and check the signal payloads.

        Args:
            evolver (Evolver): The evolver. Tasks are already queued.
            evo_task (EvolveAppTask): Task of evolutions_app.
            mig_task (EvolveAppTask): Task of migrations_app.
            labels (list of unicode): [e1, e2].
            detectors (dict): label -> callable(before, after) saying, from
                two table snapshots, whether that evolution's schema change
                happened in between. Database-level oracle.
            use_evolve (bool): Drive through Evolver.evolve() rather than
                prepare_tasks()/execute_tasks().
        """
        e1, e2 = labels
        tasks = [evo_task, mig_task]
        connection = connections[DEFAULT_DB_ALIAS]

        if use_evolve:
            # Evolver.evolve() -> _prepare_tasks() -> REAL prepare_tasks(),
            # then REAL execute_tasks(evolver=self, tasks=tasks).
            with connection.execute_wrapper(self._sql_wrapper):
                evolver.evolve()
        else:
            # REAL prepare_tasks: builds the graph and the batches.
            EvolveAppTask.prepare_tasks(evolver, tasks)

            # REAL execute_tasks, with every statement recorded.
            with connection.execute_wrapper(self._sql_wrapper):
                EvolveAppTask.execute_tasks(evolver, tasks)

        self.assertEqual([e.label for e in evo_task.new_evolutions], labels)
        self.assertEqual(mig_task.upgrade_method, UpgradeMethod.MIGRATIONS)

        batches = evolver._evolve_app_task_state['batches']

        print()
        print('=== batches (evolver._evolve_app_task_state["batches"]) ===')
        pprint.pprint(batches, width=100)

        # Normalised view of the batches, and proof of the split.
        shape = []

        for batch in batches:
            if batch['type'] == UpgradeMethod.EVOLUTIONS:
                shape.append((
                    'evolutions',
                    [
                        (task.app_label, info['evolutions'])
                        for task, info in batch['task_evolutions'].items()
                    ]))
            else:
                shape.append(('migrations', batch['migration_targets']))

        print('=== batch shape ===')
        pprint.pprint(shape, width=100)

        self.assertEqual(
            shape,
            [
                ('evolutions', [('evolutions_app', [e1])]),
                ('migrations', [MIG_TARGET]),
                ('evolutions', [('evolutions_app', [e2])]),
            ],
            'Precondition: the task\'s two evolutions must be split over two '
            'evolution batches with a migration batch in between.')

        batch_sql = {
            e1: [_stmt_text(stmt)
                 for stmt in batches[0]['task_evolutions'][evo_task]['sql']],
            e2: [_stmt_text(stmt)
                 for stmt in batches[2]['task_evolutions'][evo_task]['sql']],
        }
        self.assertTrue(batch_sql[e1])
        self.assertTrue(batch_sql[e2])
        self.assertNotEqual(batch_sql[e1], batch_sql[e2])

        print('=== timeline ===')

        for kind, data in self.timeline:
            if kind == 'sql':
                print('    SQL  %s' % data)
            elif kind.endswith('_evolution'):
                print('%s labels=%r table=%r'
                      % (kind, data['labels'], list(data['snapshot'].items())))
            else:
                print('%s %r' % (kind, data))

        # Sanity: the migration really was applied.
        self.assertIn('added_field', self._snapshot(MIG_TABLE))

        # Cut the timeline into applying..applied windows.
        windows = []
        cur = None

        for kind, data in self.timeline:
            if kind == 'applying_evolution':
                self.assertIsNone(cur)
                self.assertIs(data['task'], evo_task)
                cur = {
                    'applying_labels': data['labels'],
                    'before': data['snapshot'],
                    'sql': [],
                }
            elif kind == 'applied_evolution':
                self.assertIsNotNone(cur)
                self.assertIs(data['task'], evo_task)
                cur['applied_labels'] = data['labels']
                cur['after'] = data['snapshot']
                windows.append(cur)
                cur = None
            elif kind == 'sql' and cur is not None:
                cur['sql'].append(data)

        self.assertIsNone(cur)
        self.assertEqual(len(windows), 2)

        # The migration ran strictly between the two windows.
        self.assertEqual(
            [
                (kind, data if kind.endswith('_migration') else None)
                for kind, data in self.timeline
                if kind != 'sql'
            ],
            [
                ('applying_evolution', None),
                ('applied_evolution', None),
                ('applying_migration', MIG_TARGET),
                ('applied_migration', MIG_TARGET),
                ('applying_evolution', None),
                ('applied_evolution', None),
            ])

        # For each window, work out which evolutions were REALLY executed.
        #
        # Oracle 1 (database level): the schema change belonging to each
        #     evolution is looked for between the two table snapshots.
        # Oracle 2 (SQL level): the statements seen on the wire in the window
        #     are exactly the SQL that _build_batches generated for the batch
        #     holding that label (and the two batches' SQL differ).
        print('=== windows ===')
        failures = []

        for i, window in enumerate(windows):
            executed_by_db = [
                label
                for label in labels
                if detectors[label](window['before'], window['after'])
            ]
            executed_by_sql = [
                label
                for label in labels
                if window['sql'] == batch_sql[label]
            ]

            print('window %d:' % i)
            print('    applying_evolution payload: %r'
                  % window['applying_labels'])
            print('    applied_evolution payload:  %r'
                  % window['applied_labels'])
            print('    SQL executed in window:')

            for stmt in window['sql']:
                print('        %s' % stmt)

            print('    table before: %r' % list(window['before'].items()))
            print('    table after:  %r' % list(window['after'].items()))
            print('    => really executed (db oracle):  %r' % executed_by_db)
            print('    => really executed (sql oracle): %r' % executed_by_sql)

            # The two oracles must agree with each other, otherwise the
            # witness itself is broken.
            self.assertEqual(executed_by_db, executed_by_sql)
            self.assertEqual(len(executed_by_db), 1)

            for signal_name, payload in (
                ('applying_evolution', window['applying_labels']),
                ('applied_evolution', window['applied_labels'])):
                if payload != executed_by_db:
                    failures.append(
                        'window %d: %s carried %r but only %r was executed '
                        'between the paired signals'
                        % (i, signal_name, payload, executed_by_db))

        self.assertEqual(failures, [], '\n' + '\n'.join(failures))

    # ------------------------------------------------------------------
    # Variants 1 and 2: custom evolutions=[...]
    # ------------------------------------------------------------------
    def _make_custom_scenario(self):
        # evolutions_app is fully up to date on disk (both on-disk evolutions
        # recorded); the two pending evolutions are the custom ones.
        evolutions_app, migrations_app = self._setup_pre_upgrade(
            make_old_evolutions_app_model=None,
            applied_evolutions=[
                ('evolutions_app', 'first_evolution'),
                ('evolutions_app', 'second_evolution'),
            ])

        evolver = Evolver()
        evo_task = EvolveAppTask(
            evolver=evolver,
            app=evolutions_app,
            evolutions=[
                {
                    'label': 'c17_e1',
                    'before_migrations': [MIG_TARGET],
                    'mutations': [
                        AddField('EvolutionsAppTestModel', 'c17_col_a',
                                 models.IntegerField, null=True),
                    ],
                },
                {
                    'label': 'c17_e2',
                    'after_migrations': [MIG_TARGET],
                    'mutations': [
                        AddField('EvolutionsAppTestModel', 'c17_col_b',
                                 models.IntegerField, null=True),
                    ],
                },
            ])
        mig_task = EvolveAppTask(evolver=evolver, app=migrations_app)

        evolver.queue_task(evo_task)
        evolver.queue_task(mig_task)

        detectors = {
            'c17_e1': lambda before, after: ('c17_col_a' not in before and
                                             'c17_col_a' in after),
            'c17_e2': lambda before, after: ('c17_col_b' not in before and
                                             'c17_col_b' in after),
        }

        return evolver, evo_task, mig_task, ['c17_e1', 'c17_e2'], detectors

    def test_1_custom_evolutions_prepare_tasks_execute_tasks(self):
        """C17 #1: custom evolutions=, prepare_tasks() + execute_tasks()"""
        evolver, evo_task, mig_task, labels, detectors = \
            self._make_custom_scenario()

        self._run_and_check(evolver, evo_task, mig_task, labels, detectors,
                            use_evolve=False)

    def test_2_custom_evolutions_evolver_evolve(self):
        """C17 #2: custom evolutions=, Evolver.evolve()"""
        evolver, evo_task, mig_task, labels, detectors = \
            self._make_custom_scenario()

        self._run_and_check(evolver, evo_task, mig_task, labels, detectors,
                            use_evolve=True)

    # ------------------------------------------------------------------
    # Variant 3: real on-disk evolution files with module-level
    # BEFORE_MIGRATIONS / AFTER_MIGRATIONS constants
    # ------------------------------------------------------------------
    def test_3_on_disk_evolutions_with_before_after_migrations(self):
        """C17 #3: on-disk evolutions with BEFORE_/AFTER_MIGRATIONS,
        Evolver.evolve()
        """
        def make_old_model():
            class OldEvolutionsAppTestModel(BaseTestModel):
                # evolutions_app before any evolution.
                char_field = models.CharField(max_length=10)

                class Meta:
                    app_label = 'tests'
                    db_table = EVO_TABLE

            return OldEvolutionsAppTestModel

        evolutions_app, migrations_app = self._setup_pre_upgrade(
            make_old_evolutions_app_model=make_old_model,
            applied_evolutions=[])

        self.assertEqual(list(self._snapshot(EVO_TABLE).items()),
                         [('id', False), ('char_field', False)])

        # Point evolutions_app at the evolution files in
        # triage/c17_evolutions/ (c17_e1.py has BEFORE_MIGRATIONS, c17_e2.py
        # has AFTER_MIGRATIONS) through the documented project setting.
        here = os.path.dirname(os.path.abspath(__file__))

        if here not in sys.path:
            sys.path.insert(0, here)
            self.addCleanup(sys.path.remove, here)

        new_settings = {
            'CUSTOM_EVOLUTIONS': {
                'django_evolution.tests.evolutions_app': 'c17_evolutions',
            },
        }

        with self.settings(DJANGO_EVOLUTION=new_settings):
            self.assertEqual(get_evolution_sequence(evolutions_app),
                             ['c17_e1', 'c17_e2'])
            self.assertEqual(
                get_evolution_dependencies(evolutions_app, 'c17_e1'),
                {
                    'after_evolutions': set(),
                    'after_migrations': set(),
                    'before_evolutions': set(),
                    'before_migrations': {MIG_TARGET},
                })
            self.assertEqual(
                get_evolution_dependencies(evolutions_app, 'c17_e2'),
                {
                    'after_evolutions': set(),
                    'after_migrations': {MIG_TARGET},
                    'before_evolutions': set(),
                    'before_migrations': set(),
                })

            evolver = Evolver()

            # No custom evolutions=: the task discovers c17_e1 and c17_e2
            # from the evolution files, exactly as the evolve command would.
            evo_task = EvolveAppTask(evolver=evolver, app=evolutions_app)
            mig_task = EvolveAppTask(evolver=evolver, app=migrations_app)

            evolver.queue_task(evo_task)
            evolver.queue_task(mig_task)

            detectors = {
                # AddField char_field2
                'c17_e1': lambda before, after: (
                    'char_field2' not in before and 'char_field2' in after),
                # ChangeField char_field null=True
                'c17_e2': lambda before, after: (
                    not before['char_field'] and after['char_field']),
            }

            try:
                self._run_and_check(evolver, evo_task, mig_task,
                                    ['c17_e1', 'c17_e2'],
                                    detectors,
                                    use_evolve=True)
            finally:
                # The whole upgrade went through and was recorded: one
                # Evolution row per label, and nothing left to evolve.
                self.assertTrue(evolver.evolved)
                self.assertEqual(
                    sorted(Evolution.objects
                           .filter(app_label='evolutions_app')
                           .values_list('label', flat=True)),
                    ['c17_e1', 'c17_e2'])
                self.assertEqual(
                    list(self._snapshot(EVO_TABLE).items()),
                    [('id', False), ('char_field', True),
                     ('char_field2', True)])
