"""F-C06 witness: a stored signature containing a UniqueConstraint does not
read back equal: ConstraintSignature keeps the deconstructed tuple, JSON
turns it into a list, and nothing normalises either side (IndexSignature
does).  The reloaded signature therefore always diffs as 'constraints
changed' against the signature built from the models."""
import _boot  # noqa
import json
from django.db import models
from django_evolution.signature import ConstraintSignature, ModelSignature

c = models.UniqueConstraint(fields=['a', 'b'], name='w_uniq')
sig = ConstraintSignature.from_constraint(c)
stored = json.dumps(sig.serialize())
back = ConstraintSignature.deserialize(json.loads(stored), sig_version=2)
print('original attrs:', sig.attrs)
print('reloaded attrs:', back.attrs)
print('equal after round trip:', sig == back)

m1 = ModelSignature(model_name='M', table_name='t')
m1.add_constraint_sig(sig)
m2 = ModelSignature.deserialize('M', json.loads(json.dumps(m1.serialize())), sig_version=2)
print('model diff after round trip:', dict(m1.diff(m2)))
assert sig == back, 'round trip changed the constraint signature'
