"""C07 demonstration: deferred SQL for new models runs after the commit.

``EvolveAppTask.execute_tasks()`` collects the deferred SQL of the models it
creates (on SQLite: the CREATE INDEX statements for ``db_index=True`` fields
and foreign keys) and only executes it at the very end, in a brand new
``SQLExecutor`` -- after the executor that created the tables (and applied
the evolutions of the batch) has exited and committed.

A database error in any deferred statement therefore leaves the new tables
(and any evolutions of the batch) committed while no evolution is recorded
and the stored signature is unchanged. On the retry the tables exist, so the
models aren't considered new any more: the remaining indexes are never
created and the models never make it into the stored signature.

The test fails on the unmodified code. All states that are compared are
produced by the real Evolver.
"""

from __future__ import unicode_literals

from django.db import models

from django_evolution.tests.base_test_case import EvolutionTestCase
from django_evolution.tests.models import BaseTestModel

try:
    from hunt_demo.fault_harness import Scenario, check_fault_points
except ImportError:
    from fault_harness import Scenario, check_fault_points


class DeferredSQLSeparateTransactionTests(EvolutionTestCase):
    """A failed single-batch upgrade must leave the database as it was."""

    needs_evolution_models = True

    def test_new_model_with_indexes(self):
        """C07: failure at each statement of [create model + deferred SQL]
        """
        class ExistingModel(BaseTestModel):
            value = models.CharField(max_length=20)

        class NewModel(BaseTestModel):
            name = models.CharField(max_length=20, db_index=True)
            rank = models.IntegerField(default=0, db_index=True)
            ref = models.ForeignKey(ExistingModel, null=True,
                                    on_delete=models.CASCADE)

        def create_data():
            ExistingModel.objects.create(value='a')

        scenario = Scenario(
            start_entries=[('TestModel', ExistingModel)],
            end_entries=[('TestModel', ExistingModel),
                         ('NewModel', NewModel)],
            mutations=lambda: [],
            create_data=create_data)

        problems = check_fault_points(scenario)

        self.assertEqual(problems, [], '\n' + '\n'.join(problems))
