"""Fault-injection harness for Evolver.evolve() (property C07).

The harness drives the REAL upgrade path:

    Evolver() -> queue_task(EvolveAppTask(...)) -> Evolver.evolve()

against the 'tests' app, and makes the database raise an error at the k-th
SQL statement that SQLExecutor.run_sql() sends to the cursor. Nothing in
django_evolution is replaced: the only instrumentation is

* a Django ``connection.execute_wrapper()`` (public Django API) that counts
  statements and raises ``DatabaseError`` at index k, and
* a transparent wrapper around ``SQLExecutor.run_sql`` that only sets a flag
  so that just the statements of the evolution (not the bookkeeping
  queries, PRAGMAs or savepoints) are counted.

Snapshots of the database are taken straight from ``sqlite_master`` and the
tables themselves.
"""

from __future__ import unicode_literals

import json
from contextlib import contextmanager

from django.db import DatabaseError, connections

from django_evolution.compat.apps import register_app_models
from django_evolution.compat.db import sql_create_app
from django_evolution.errors import EvolutionExecutionError
from django_evolution.evolve import EvolveAppTask, Evolver
from django_evolution.models import Evolution, Version
from django_evolution.signature import AppSignature, ModelSignature
from django_evolution.tests import models as evo_test
from django_evolution.db.state import DatabaseState
from django_evolution.tests.utils import execute_test_sql, register_models
from django_evolution.utils.sql import SQLExecutor


class InjectedFault(DatabaseError):
    pass


class FaultInjector(object):
    """Counts the statements run by SQLExecutor.run_sql and fails one."""

    def __init__(self, fail_at=None, database='default'):
        self.fail_at = fail_at
        self.database = database
        self.statements = []
        self.failed_statement = None
        self._depth = 0

    def _wrapper(self, execute, sql, params, many, context):
        if self._depth > 0 and not sql.startswith(TRANSACTION_CONTROL):
            index = len(self.statements)
            self.statements.append((sql, params))

            if self.fail_at is not None and index == self.fail_at:
                self.failed_statement = (sql, params)
                raise InjectedFault('injected fault at statement %d: %s'
                                    % (index, sql))

        return execute(sql, params, many, context)

    @contextmanager
    def active(self):
        injector = self
        orig_run_sql = SQLExecutor.run_sql

        def run_sql(self, sql, capture=False, execute=False):
            if execute:
                injector._depth += 1

            try:
                return orig_run_sql(self, sql, capture=capture,
                                    execute=execute)
            finally:
                if execute:
                    injector._depth -= 1

        SQLExecutor.run_sql = run_sql

        try:
            with connections[self.database].execute_wrapper(self._wrapper):
                yield self
        finally:
            SQLExecutor.run_sql = orig_run_sql


# Statements issued by Django's transaction management, not by the
# evolution.
TRANSACTION_CONTROL = ('BEGIN', 'SAVEPOINT', 'RELEASE SAVEPOINT',
                       'ROLLBACK TO SAVEPOINT')


BOOKKEEPING_TABLES = (
    'django_evolution',
    'django_project_version',
    'django_migrations',
    'django_content_type',
    'django_admin_log',
    'auth_',
    'sqlite_',
)


def snapshot_schema(database='default'):
    """Return the user schema, straight from sqlite_master."""
    cursor = connections[database].cursor()

    try:
        cursor.execute('SELECT type, name, tbl_name, sql FROM sqlite_master')
        rows = cursor.fetchall()
    finally:
        cursor.close()

    return sorted(
        (row[0], row[1], row[2], row[3])
        for row in rows
        if not row[2].startswith(BOOKKEEPING_TABLES)
    )


def snapshot_data(database='default'):
    """Return all rows of all user tables."""
    connection = connections[database]
    qn = connection.ops.quote_name
    result = {}

    cursor = connection.cursor()

    try:
        for row in snapshot_schema(database):
            if row[0] == 'table':
                cursor.execute('SELECT * FROM %s' % qn(row[1]))
                colnames = [_d[0] for _d in cursor.description]
                result[row[1]] = (colnames,
                                  sorted(cursor.fetchall(), key=repr))
    finally:
        cursor.close()

    return result


def snapshot_bookkeeping(database='default'):
    """Return what Django Evolution has recorded."""
    versions = list(Version.objects.using(database).order_by('pk'))

    return {
        'n_versions': len(versions),
        'current_signature': json.loads(
            json.dumps(versions[-1].signature.serialize(), sort_keys=True,
                       default=repr)),
        'evolutions': sorted(
            Evolution.objects.using(database)
            .exclude(app_label='django_evolution')
            .values_list('app_label', 'label')),
    }


def snapshot_all(database='default'):
    return {
        'schema': snapshot_schema(database),
        'data': snapshot_data(database),
        'bookkeeping': snapshot_bookkeeping(database),
    }


def drop_user_tables(database='default'):
    connection = connections[database]
    qn = connection.ops.quote_name
    cursor = connection.cursor()

    try:
        cursor.execute('PRAGMA foreign_keys = OFF')

        for row in snapshot_schema(database):
            if row[0] == 'table':
                cursor.execute('DROP TABLE %s' % qn(row[1]))
    finally:
        cursor.close()


class Scenario(object):
    """One upgrade: start models -> (evolutions, new models) -> end models.

    Args:
        start_entries (list of tuple):
            ``(name, model)`` for the models present (tables + stored
            signature) before the upgrade.

        end_entries (list of tuple):
            ``(name, model)`` for the models registered in Django when the
            upgrade runs.

        mutations (list):
            Callable returning the list of mutations of the single evolution
            (fresh instances for every run).

        create_data (callable):
            Called with no arguments after the start tables are created.
    """

    def __init__(self, start_entries, end_entries, mutations,
                 create_data=None, label='hunt_evolution'):
        # Give every model class the registered name/table name (this is
        # what EvolutionTestCase.register_model() does for the test suite).
        seen = set()
        scratch_state = DatabaseState('default', scan=False)

        for name, model in list(start_entries) + list(end_entries):
            if id(model) not in seen:
                seen.add(id(model))
                register_models(database_state=scratch_state,
                                models=[(name, model)],
                                new_app_label='tests')

        self.start_entries = [
            (name.lower(), model)
            for name, model in start_entries
        ]
        self.end_entries = [
            (name.lower(), model)
            for name, model in end_entries
        ]
        self.mutations = mutations
        self.create_data = create_data
        self.label = label

    def setup(self):
        """Bring the database to the pre-upgrade state."""
        drop_user_tables()
        Evolution.objects.all().delete()
        Version.objects.all().delete()

        # Baseline for django_evolution itself.
        Evolver()

        register_app_models('tests', self.start_entries, reset=True)

        if self.start_entries:
            execute_test_sql(sql_create_app(app=evo_test))

        # Stored signature describing exactly the start models.
        version = Version.objects.current_version()
        app_sig = AppSignature(app_id='tests')

        for name, model in self.start_entries:
            app_sig.add_model_sig(ModelSignature.from_model(model))

        version.signature.add_app_sig(app_sig)
        version.save()

        if self.create_data:
            self.create_data()

        register_app_models('tests', self.end_entries, reset=True)

    def upgrade(self, fail_at=None):
        """Run the upgrade, optionally failing at a statement.

        Returns:
            tuple:
            ``(injector, exception)``.
        """
        injector = FaultInjector(fail_at=fail_at)
        error = None

        evolver = Evolver()
        mutations = self.mutations()

        if mutations:
            evolutions = [{
                'label': self.label,
                'mutations': mutations,
            }]
        else:
            evolutions = []

        evolver.queue_task(EvolveAppTask(evolver=evolver,
                                         app=evo_test,
                                         evolutions=evolutions))

        with injector.active():
            try:
                evolver.evolve()
            except EvolutionExecutionError as e:
                error = e

        return injector, error

    def teardown(self):
        drop_user_tables()
        register_app_models('tests', [], reset=True)


def _changed_parts(a, b):
    return [
        key
        for key in ('schema', 'data', 'bookkeeping')
        if a[key] != b[key]
    ]


def check_fault_points(scenario, verbose=True):
    """Check the property for every fault index of a scenario.

    Both sides of every comparison come from the real code:

    * the state before the upgrade vs. the state after the failed upgrade;
    * the state after an uninterrupted upgrade vs. the state after a failed
      upgrade followed by a fault-free retry (fresh Evolver).

    Returns:
        list of unicode:
        A description of each violation found. Empty if the property holds
        at every fault index.
    """
    problems = []

    # The uninterrupted run.
    scenario.setup()
    injector, error = scenario.upgrade()
    assert error is None, 'the uninterrupted upgrade failed: %s' % error
    reference = snapshot_all()
    statements = list(injector.statements)
    scenario.teardown()

    if verbose:
        print()
        print('Uninterrupted run: %d statements' % len(statements))

        for i, (sql, params) in enumerate(statements):
            print('   [%d] %s %r' % (i, sql, params))

    for k, (sql, params) in enumerate(statements):
        scenario.setup()
        before = snapshot_all()
        injector, error = scenario.upgrade(fail_at=k)

        if error is None:
            problems.append('k=%d: no error was reported' % k)
            scenario.teardown()
            continue

        after_failure = snapshot_all()
        changed = _changed_parts(before, after_failure)

        if changed:
            details = []

            if 'schema' in changed:
                leftover = [
                    row[:2]
                    for row in after_failure['schema']
                    if row not in before['schema']
                ]
                missing = [
                    row[:2]
                    for row in before['schema']
                    if row not in after_failure['schema']
                ]
                details.append('new schema objects %r, lost/changed %r'
                               % (leftover, missing))

            problems.append(
                'k=%d (%s): the failed upgrade changed %s [%s]; stored '
                'signature/evolutions changed: %s'
                % (k, sql, changed, '; '.join(details),
                   'bookkeeping' in changed))

        reported = getattr(error, 'last_sql_statement', None)

        if not reported or reported[0] != injector.failed_statement[0]:
            problems.append(
                'k=%d: the error reports statement %r but %r failed'
                % (k, reported, injector.failed_statement))

        # Retry, with the cause removed.
        try:
            injector2, error2 = scenario.upgrade()
        except Exception as e:
            error2 = e

        if error2 is not None:
            problems.append('k=%d (%s): the retry failed: %s'
                            % (k, sql, error2))
        else:
            after_retry = snapshot_all()
            changed = _changed_parts(reference, after_retry)

            if changed:
                details = []

                if 'schema' in changed:
                    details.append(
                        'schema objects only in the uninterrupted run: %r, '
                        'only after the retry: %r'
                        % ([row[:2] for row in reference['schema']
                            if row not in after_retry['schema']],
                           [row[:2] for row in after_retry['schema']
                            if row not in reference['schema']]))

                if 'bookkeeping' in changed:
                    ref_models = sorted(
                        reference['bookkeeping']['current_signature']
                        ['apps'].get('tests', {}).get('models', {}))
                    retry_models = sorted(
                        after_retry['bookkeeping']['current_signature']
                        ['apps'].get('tests', {}).get('models', {}))
                    details.append(
                        'models in the stored signature of "tests": %r '
                        'uninterrupted vs %r after the retry; evolutions '
                        '%r vs %r'
                        % (ref_models, retry_models,
                           reference['bookkeeping']['evolutions'],
                           after_retry['bookkeeping']['evolutions']))

                if 'data' in changed:
                    details.append('data: %r vs %r'
                                   % (reference['data'],
                                      after_retry['data']))

                problems.append(
                    'k=%d (%s): fail + retry differs from the '
                    'uninterrupted run in %s [%s]'
                    % (k, sql, changed, '; '.join(details)))

        scenario.teardown()

    return problems


class TwoAppScenario(Scenario):
    """A scenario in which a second app is evolved in the same batch.

    The second app is the test suite's ``evolutions_app``. Its table starts
    out with only ``char_field``, and its evolution adds ``char_field2``
    (bringing it to the app's real model).
    """

    def __init__(self, *args, **kwargs):
        super(TwoAppScenario, self).__init__(*args, **kwargs)

        from django.db import models

        from django_evolution.compat.apps import unregister_app_model

        class App2Start(models.Model):
            char_field = models.CharField(max_length=10, null=True)

            class Meta:
                app_label = 'evolutions_app'
                db_table = 'evolutions_app_evolutionsapptestmodel'

        # Don't leave the class registered under its Python name.
        unregister_app_model('evolutions_app', 'app2start')

        App2Start._meta.object_name = 'EvolutionsAppTestModel'
        App2Start._meta.model_name = 'evolutionsapptestmodel'

        self.app2_start_model = App2Start
        self.n_batches = None

    def setup(self):
        from django_evolution.compat.db import sql_create_models
        from django_evolution.tests.evolutions_app.models import \
            EvolutionsAppTestModel

        super(TwoAppScenario, self).setup()

        start_model = self.app2_start_model

        execute_test_sql(sql_create_models([start_model]))

        version = Version.objects.current_version()
        app_sig = AppSignature(app_id='evolutions_app')
        app_sig.add_model_sig(ModelSignature.from_model(start_model))
        version.signature.add_app_sig(app_sig)
        version.save()

        start_model.objects.create(char_field='x')

        register_app_models(
            'evolutions_app',
            [('evolutionsapptestmodel', EvolutionsAppTestModel)],
            reset=True)

    def upgrade(self, fail_at=None):
        from django.db import models

        from django_evolution.mutations import AddField
        from django_evolution.tests.evolutions_app import models as app2

        injector = FaultInjector(fail_at=fail_at)
        error = None

        evolver = Evolver()
        evolver.queue_task(EvolveAppTask(
            evolver=evolver,
            app=evo_test,
            evolutions=[{
                'label': self.label,
                'mutations': self.mutations(),
            }]))
        evolver.queue_task(EvolveAppTask(
            evolver=evolver,
            app=app2,
            evolutions=[{
                'label': 'app2_evolution',
                'mutations': [
                    AddField('EvolutionsAppTestModel', 'char_field2',
                             models.CharField, max_length=20, null=True),
                ],
            }]))

        with injector.active():
            try:
                evolver.evolve()
            except EvolutionExecutionError as e:
                error = e

        self.n_batches = len(evolver._evolve_app_task_state['batches'])

        return injector, error
