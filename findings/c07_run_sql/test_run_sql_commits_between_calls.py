"""C07 demonstration: SQLExecutor.run_sql() commits the previous call's work.

Every call to ``SQLExecutor.run_sql(..., execute=True)`` begins with
``new_transaction()``, which COMMITS whatever an earlier ``run_sql()`` call
on the same executor did. ``EvolveAppTask.execute_tasks()`` runs one
EVOLUTIONS batch through one executor but with several ``run_sql()`` calls
(one for the new models of the batch, then one per evolved app), so a single
batch is really a chain of independently committed transactions.

A database error in a later call therefore rolls back only that call:

* a model created in the batch survives the failure of the evolution that
  follows it, while nothing is recorded; on the retry the table already
  exists, so the model is never added to the stored signature;
* when two apps are evolved in one batch, the first app's evolution survives
  the failure of the second app's evolution, is not recorded, and is
  re-applied (and fails) on the retry.

Both tests fail on the unmodified code. No expectations are hard-coded: the
state before the upgrade, after the failed upgrade, after an uninterrupted
upgrade and after fail + retry are all produced by the real Evolver.
"""

from __future__ import unicode_literals

from django.db import models

from django_evolution.mutations import AddField, RenameField
from django_evolution.tests.base_test_case import EvolutionTestCase
from django_evolution.tests.models import BaseTestModel

try:
    from hunt_demo.fault_harness import (Scenario, TwoAppScenario,
                                         check_fault_points)
except ImportError:
    from fault_harness import Scenario, TwoAppScenario, check_fault_points


class RunSQLCommitsBetweenCallsTests(EvolutionTestCase):
    """A failed single-batch upgrade must leave the database as it was."""

    needs_evolution_models = True

    def test_new_model_then_failing_evolution(self):
        """C07: failure at each statement of [create model + AddField] batch
        """
        class StartModel(BaseTestModel):
            value = models.CharField(max_length=20)

        class EndModel(BaseTestModel):
            value = models.CharField(max_length=20)
            extra = models.IntegerField(default=7)

        # Deliberately without indexes, so that the batch has no deferred
        # SQL (that's a separate demonstration).
        class NewModel(BaseTestModel):
            name = models.CharField(max_length=20)

        def create_data():
            StartModel.objects.create(value='a')
            StartModel.objects.create(value='b')

        scenario = Scenario(
            start_entries=[('TestModel', StartModel)],
            end_entries=[('TestModel', EndModel), ('NewModel', NewModel)],
            mutations=lambda: [
                AddField('TestModel', 'extra', models.IntegerField,
                         initial=7),
            ],
            create_data=create_data)

        problems = check_fault_points(scenario)

        self.assertEqual(problems, [], '\n' + '\n'.join(problems))

    def test_two_apps_in_one_batch(self):
        """C07: failure at each statement of a batch evolving two apps"""
        class StartModel(BaseTestModel):
            value = models.CharField(max_length=20)

        class EndModel(BaseTestModel):
            title = models.CharField(max_length=20)

        def create_data():
            StartModel.objects.create(value='a')

        scenario = TwoAppScenario(
            start_entries=[('TestModel', StartModel)],
            end_entries=[('TestModel', EndModel)],
            mutations=lambda: [
                RenameField('TestModel', 'value', 'title'),
            ],
            create_data=create_data)

        problems = check_fault_points(scenario)

        # The property is about single-batch upgrades. Make sure this was
        # one.
        self.assertEqual(scenario.n_batches, 1)
        self.assertEqual(problems, [], '\n' + '\n'.join(problems))
