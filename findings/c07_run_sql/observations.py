"""C07 observations (NOT counted as defects of the quantified property).

Run with:

    /venv/bin/python -m pytest hunt_demo/observations.py \
        --rootdir=/tmp/hunt/c07 -c /tmp/hunt/c07/setup.cfg \
        -p no:cacheprovider -q -s

Each test asserts the C07 guarantee for an upgrade that is OUTSIDE the
property's quantification (more than one batch / task class, or a failure in
Django Evolution's own bookkeeping statements), and fails on the unmodified
code.
"""

from __future__ import unicode_literals

from django.db import DatabaseError, connections, migrations, models

from django_evolution.errors import EvolutionExecutionError
from django_evolution.evolve import EvolveAppTask, Evolver
from django_evolution.models import Version
from django_evolution.mutations import (AddField, MoveToDjangoMigrations,
                                        RenameField)
from django_evolution.signature import AppSignature, ModelSignature
from django_evolution.tests import models as evo_test
from django_evolution.tests.base_test_case import (EvolutionTestCase,
                                                   MigrationsTestsMixin)
from django_evolution.tests.models import BaseTestModel
from django_evolution.tests.utils import execute_test_sql
from django_evolution.utils.migrations import MigrationList

try:
    from hunt_demo.fault_harness import (FaultInjector, Scenario,
                                         check_fault_points, snapshot_all)
except ImportError:
    from fault_harness import (FaultInjector, Scenario, check_fault_points,
                               snapshot_all)


class PurgeScenario(Scenario):
    """Evolve 'tests' and purge a stale app in the same Evolver.evolve()."""

    def setup(self):
        super(PurgeScenario, self).setup()

        execute_test_sql([
            'CREATE TABLE "old_app_thing" ("id" integer NOT NULL PRIMARY KEY,'
            ' "x" integer NULL);',
        ])

        class Thing(models.Model):
            x = models.IntegerField(null=True)

            class Meta:
                app_label = 'old_app'
                db_table = 'old_app_thing'

        version = Version.objects.current_version()
        app_sig = AppSignature(app_id='old_app')
        app_sig.add_model_sig(ModelSignature.from_model(Thing))
        version.signature.add_app_sig(app_sig)
        version.save()

    def upgrade(self, fail_at=None):
        injector = FaultInjector(fail_at=fail_at)
        error = None

        evolver = Evolver()
        evolver.queue_task(EvolveAppTask(
            evolver=evolver,
            app=evo_test,
            evolutions=[{
                'label': self.label,
                'mutations': self.mutations(),
            }]))
        evolver.queue_purge_old_apps()

        with injector.active():
            try:
                evolver.evolve()
            except EvolutionExecutionError as e:
                error = e

        return injector, error


class ObservationTests(MigrationsTestsMixin, EvolutionTestCase):
    needs_evolution_models = True

    def _rename_scenario(self, scenario_cls=Scenario):
        class StartModel(BaseTestModel):
            value = models.CharField(max_length=20)

        class EndModel(BaseTestModel):
            title = models.CharField(max_length=20)

        return scenario_cls(
            start_entries=[('TestModel', StartModel)],
            end_entries=[('TestModel', EndModel)],
            mutations=lambda: [RenameField('TestModel', 'value', 'title')],
            create_data=lambda: StartModel.objects.create(value='a'))

    def test_o1_purge_failure_after_evolutions(self):
        """O1: `evolve --purge`: evolutions stay applied when the purge fails
        """
        problems = check_fault_points(self._rename_scenario(PurgeScenario))

        self.assertEqual(problems, [], '\n' + '\n'.join(problems))

    def test_o2_bookkeeping_failure(self):
        """O2: failure while saving the Version / Evolution rows"""
        problems = []

        for prefix in ('INSERT INTO "django_project_version"',
                       'INSERT INTO "django_evolution"'):
            scenario = self._rename_scenario()
            scenario.setup()
            before = snapshot_all()

            def wrapper(execute, sql, params, many, context):
                if sql.startswith(prefix):
                    raise DatabaseError('injected: %s' % sql)

                return execute(sql, params, many, context)

            with connections['default'].execute_wrapper(wrapper):
                injector, error = scenario.upgrade()

            self.assertIsNotNone(error)
            after = snapshot_all()

            for key in ('schema', 'data', 'bookkeeping'):
                if before[key] != after[key]:
                    problems.append('%s failed: %s changed' % (prefix, key))

            try:
                injector, error = scenario.upgrade()
            except Exception as e:
                error = e

            if error is not None:
                problems.append('%s failed: the retry failed: %r'
                                % (prefix, error))

            scenario.teardown()

        self.assertEqual(problems, [], '\n' + '\n'.join(problems))

    def test_o3_applied_migrations_recorded_before_evolution(self):
        """O3: MoveToDjangoMigrations: migration recorded, evolution failed
        """
        class StartModel(BaseTestModel):
            field1 = models.IntegerField()

        class InitialMigration(migrations.Migration):
            operations = [
                migrations.CreateModel(
                    name='TestModel',
                    fields=[
                        ('id', models.AutoField(verbose_name='ID',
                                                serialize=False,
                                                auto_created=True,
                                                primary_key=True)),
                        ('field1', models.IntegerField()),
                        ('field2', models.CharField(max_length=10)),
                    ]
                ),
            ]

        class AddFieldMigration(migrations.Migration):
            dependencies = [
                ('tests', '0001_initial'),
            ]

            operations = [
                migrations.AddField(
                    model_name='TestModel',
                    name='field3',
                    field=models.BooleanField(default=False)),
            ]

        scenario = Scenario(
            start_entries=[('TestModel', StartModel)],
            end_entries=[('TestModel', StartModel)],
            mutations=lambda: [])
        scenario.setup()

        evolver = Evolver()
        evolver.queue_task(EvolveAppTask(
            evolver=evolver,
            app=evo_test,
            evolutions=[
                {
                    'label': 'add_field2',
                    'mutations': [
                        AddField('TestModel', 'field2', models.CharField,
                                 max_length=10, initial=0),
                    ],
                },
                {
                    'label': 'move_to_migrations',
                    'mutations': [
                        MoveToDjangoMigrations(mark_applied=['0001_initial']),
                    ],
                },
            ],
            migrations=[
                InitialMigration('0001_initial', 'tests'),
                AddFieldMigration('0002_add_field', 'tests'),
            ]))

        def recorded():
            return sorted(
                target
                for target in MigrationList.from_database(
                    connections['default']).to_targets()
                if target[0] == 'tests'
            )

        before = recorded()
        injector = FaultInjector(fail_at=1)

        with injector.active():
            with self.assertRaises(EvolutionExecutionError):
                evolver.evolve()

        after = recorded()
        scenario.teardown()

        self.assertEqual(before, after)
