"""A stored signature with a UniqueConstraint never compares clean again.

The old signature of a real evolution is always one that was written to
django_project_version and loaded back.  For a model with
``UniqueConstraint(fields=[...])`` (or an expression ``Index``) the reloaded
signature differs from the signature of the very same model, and the hinted
evolution computed from that difference does not survive the next
write/reload either: the difference can never be resolved.
"""

from __future__ import unicode_literals

from django.db import models
from django.db.models.functions import Lower

from django_evolution.diff import Diff
from django_evolution.models import Version
from django_evolution.tests.models import BaseTestModel

from hunt_demo._closure import ClosureTestCase


def store_and_reload(project_sig):
    """Write the signature through the real Version model and load it."""
    version = Version(signature=project_sig)
    version.save()

    try:
        return Version.objects.get(pk=version.pk).signature
    finally:
        version.delete()


class ReloadedConstraintTests(ClosureTestCase):
    def _check(self, model):
        self.set_base_model(model)
        model_sig = self.start_sig

        # Side 1: what is in the database for this very model.
        stored_sig = store_and_reload(model_sig)

        # Side 2: the model. Nothing changed, so nothing may be pending.
        d = Diff(stored_sig, model_sig)
        first_diff = str(d)

        # Apply the hinted evolution to the stored signature, and store the
        # result the way the evolver does.
        evolved_sig = stored_sig.clone()

        for mutation in d.evolution().get('tests', []):
            mutation.run_simulation(app_label='tests',
                                    project_sig=evolved_sig,
                                    database_state=self.database_state.clone(),
                                    database='default')

        self.assertTrue(Diff(evolved_sig, model_sig).is_empty(),
                        'hinted evolution did not resolve in memory')

        restored_sig = store_and_reload(evolved_sig)
        second_diff = str(Diff(restored_sig, model_sig))

        self.assertEqual(
            (first_diff, second_diff), ('', ''),
            'unchanged model still differs from its stored signature; '
            'before hinted evolution: %r, after it was applied and stored: %r'
            % (first_diff, second_diff))

    def test_unique_constraint_fields(self):
        """UniqueConstraint(fields=...) written and reloaded"""
        class TestModel(BaseTestModel):
            a = models.IntegerField()
            b = models.IntegerField()

            class Meta(BaseTestModel.Meta):
                constraints = [
                    models.UniqueConstraint(fields=['a', 'b'], name='uc_ab'),
                ]

        self._check(TestModel)

    def test_expression_index(self):
        """Index(Lower(...)) written and reloaded"""
        class TestModel(BaseTestModel):
            c = models.CharField(max_length=10)

            class Meta(BaseTestModel.Meta):
                indexes = [
                    models.Index(Lower('c'), name='ix_lower_c'),
                ]

        self._check(TestModel)

    def test_check_constraint_with_tuple_lookup(self):
        """CheckConstraint(Q(a__in=(1, 2))) written and reloaded"""
        class TestModel(BaseTestModel):
            a = models.IntegerField()

            class Meta(BaseTestModel.Meta):
                constraints = [
                    models.CheckConstraint(check=models.Q(a__in=(1, 2)),
                                           name='cc_a_in'),
                ]

        self._check(TestModel)

    def test_check_constraint_control(self):
        """Control: a CheckConstraint survives the round trip"""
        class TestModel(BaseTestModel):
            a = models.IntegerField()

            class Meta(BaseTestModel.Meta):
                constraints = [
                    models.CheckConstraint(check=models.Q(a__gt=0),
                                           name='cc_a'),
                ]

        self._check(TestModel)
