from __future__ import unicode_literals
import itertools, warnings
from django.db import models
from django.db.models import Q, F
from django.db.models.functions import Lower, Upper
from django_evolution.tests.models import BaseTestModel
from django_evolution.signature import ProjectSignature
from hunt_demo._closure import ClosureTestCase
import json

warnings.simplefilter('ignore')

_n = [0]


def mk(meta):
    _n[0] += 1
    attrs = {'__module__': 'django_evolution.tests.models',
             'a': models.IntegerField(),
             'b': models.IntegerField(),
             'c': models.CharField(max_length=10),
             }
    attrs['Meta'] = type(str('Meta'), (), dict(meta()))
    return type(str('M%d' % _n[0]), (BaseTestModel,), attrs)

METAS = {
    'none': lambda: {},
    'ut_ab': lambda: {'unique_together': [('a', 'b')]},
    'ut_ab_flat': lambda: {'unique_together': ('a', 'b')},
    'ut_ab_bc': lambda: {'unique_together': [('a', 'b'), ('b', 'c')]},
    'ut_bc_ab': lambda: {'unique_together': [('b', 'c'), ('a', 'b')]},
    'ut_ba': lambda: {'unique_together': [('b', 'a')]},
    'it_ab': lambda: {'index_together': [('a', 'b')]},
    'it_ab_bc': lambda: {'index_together': [('a', 'b'), ('b', 'c')]},
    'it_bc_ab': lambda: {'index_together': [('b', 'c'), ('a', 'b')]},
    'idx_a': lambda: {'indexes': [models.Index(fields=['a'])]},
    'idx_a_named': lambda: {'indexes': [models.Index(fields=['a'], name='ix_a')]},
    'idx_a_desc': lambda: {'indexes': [models.Index(fields=['-a'], name='ix_a')]},
    'idx_a_b': lambda: {'indexes': [models.Index(fields=['a'], name='ix_a'), models.Index(fields=['b'], name='ix_b')]},
    'idx_b_a': lambda: {'indexes': [models.Index(fields=['b'], name='ix_b'), models.Index(fields=['a'], name='ix_a')]},
    'idx_cond': lambda: {'indexes': [models.Index(fields=['a'], name='ix_a', condition=Q(a__gt=0))]},
    'idx_cond2': lambda: {'indexes': [models.Index(fields=['a'], name='ix_a', condition=Q(a__gt=1))]},
    'idx_cond_or': lambda: {'indexes': [models.Index(fields=['a'], name='ix_a', condition=Q(a__gt=1) | Q(b=2))]},
    'idx_incl': lambda: {'indexes': [models.Index(fields=['a'], name='ix_a', include=['b'])]},
    'idx_opc': lambda: {'indexes': [models.Index(fields=['c'], name='ix_c', opclasses=['varchar_pattern_ops'])]},
    'idx_expr': lambda: {'indexes': [models.Index(Lower('c'), name='ix_lc')]},
    'idx_expr2': lambda: {'indexes': [models.Index(Upper('c'), name='ix_lc')]},
    'idx_expr_f': lambda: {'indexes': [models.Index(F('a') + F('b'), name='ix_lc')]},
    'idx_ts': lambda: {'indexes': [models.Index(fields=['a'], name='ix_a', db_tablespace='ts')]},
    'uc_ab': lambda: {'constraints': [models.UniqueConstraint(fields=['a', 'b'], name='uc_ab')]},
    'uc_ab_cond': lambda: {'constraints': [models.UniqueConstraint(fields=['a', 'b'], name='uc_ab', condition=Q(a__gt=0))]},
    'uc_ab_defer': lambda: {'constraints': [models.UniqueConstraint(fields=['a', 'b'], name='uc_ab', deferrable=models.Deferrable.DEFERRED)]},
    'uc_ab_incl': lambda: {'constraints': [models.UniqueConstraint(fields=['a', 'b'], name='uc_ab', include=['c'])]},
    'uc_expr': lambda: {'constraints': [models.UniqueConstraint(Lower('c'), name='uc_ab')]},
    'uc_ab_vem': lambda: {'constraints': [models.UniqueConstraint(fields=['a', 'b'], name='uc_ab', violation_error_message='nope')]},
    'cc': lambda: {'constraints': [models.CheckConstraint(check=Q(a__gt=0), name='cc_a')]},
    'cc2': lambda: {'constraints': [models.CheckConstraint(check=Q(a__gt=1), name='cc_a')]},
    'cc_uc': lambda: {'constraints': [models.CheckConstraint(check=Q(a__gt=0), name='cc_a'), models.UniqueConstraint(fields=['a', 'b'], name='uc_ab')]},
    'uc_cc': lambda: {'constraints': [models.UniqueConstraint(fields=['a', 'b'], name='uc_ab'), models.CheckConstraint(check=Q(a__gt=0), name='cc_a')]},
    'comment': lambda: {'db_table_comment': 'hello'},
    'comment_empty': lambda: {'db_table_comment': ''},
}


class ExploreTests(ClosureTestCase):
    def test_meta_pairs(self):
        bad = []

        for a, b in itertools.permutations(sorted(METAS), 2):
            try:
                old = mk(METAS[a]); new = mk(METAS[b])
                start, end, evolved, muts = self.closure(old, new)
                res = self.residual(evolved, end)
                eq = (evolved == end)
                if res != ('', '') or not eq:
                    bad.append((a, b, [str(m) for m in muts], res, eq))
            except Exception as e:
                bad.append((a, b, 'EXC', '%s: %s' % (type(e).__name__, e)))

        for item in bad:
            print(item)
        print(len(bad))

    def test_meta_self(self):
        for a in sorted(METAS):
            try:
                m = mk(METAS[a])
                self.set_base_model(m)
                sig = self.start_sig
                from django_evolution.diff import Diff
                c = sig.clone()
                assert Diff(sig, c).is_empty(False) and Diff(c, sig).is_empty(False), a
                assert sig == c, ('eq clone', a)
                # JSON reload
                from django_evolution.compat.py23 import pickle_dumps
                ser = sig.serialize()
                data = json.loads(json.dumps(ser))
                r = ProjectSignature.deserialize(data)
                d1 = Diff(sig, r); d2 = Diff(r, sig)
                if not (d1.is_empty(False) and d2.is_empty(False)):
                    print('RELOAD DIFF', a, str(d1), '|', str(d2))
                if not (sig == r):
                    print('RELOAD NEQ', a)
            except Exception as e:
                import traceback; traceback.print_exc()
                print('SELF EXC', a, type(e).__name__, e)
