"""The hinted evolution for dropping a custom db_column (or changing a
ManyToManyField's db_table from/to the default) cannot be turned into SQL.

Diff.evolution() emits ``ChangeField(..., db_column=None)`` /
``ChangeField(..., db_table=None)`` -- "back to the default name".  The
signature simulation accepts it, but generating the SQL crashes because the
``None`` is used as the new column/table name.

Both sides are computed by the real code: the tables produced by executing the
hinted evolution on the old schema vs. the tables of the freshly created
target models.
"""

from __future__ import unicode_literals

from django.db import connection, models

from django_evolution.compat import six
from django_evolution.compat.apps import register_app_models
from django_evolution.diff import Diff
from django_evolution.mutators import AppMutator
from django_evolution.tests.base_test_case import EvolutionTestCase
from django_evolution.tests.models import BaseTestModel
from django_evolution.tests.utils import ensure_test_db, execute_test_sql


class ColAnchor(BaseTestModel):
    value = models.IntegerField()


def get_columns():
    """Return {table: [columns]} for all test tables."""
    result = {}

    with connection.cursor() as cursor:
        for table in connection.introspection.table_names(cursor):
            if table.startswith('tests_') or table.startswith('custom_'):
                result[table] = sorted(
                    info.name
                    for info in connection.introspection.get_table_description(
                        cursor, table)
                )

    return result


class HintDropsCustomNameTests(EvolutionTestCase):
    def _check(self, old_model, new_model):
        self.set_base_model(old_model,
                            pre_extra_models=[('ColAnchor', ColAnchor)])
        end, end_sig = self.make_end_signatures(new_model, 'TestModel')

        mutations = Diff(self.start_sig, end_sig).evolution()['tests']
        hint = [str(m) for m in mutations]

        # Side 1: a database created from the target models.
        with ensure_test_db(model_entries=six.iteritems(end),
                            app_label='tests'):
            expected = get_columns()

        # Side 2: the old database, evolved by the hinted evolution.
        test_sig = self.start_sig.clone()
        database_state = self.database_state.clone()

        with ensure_test_db(model_entries=six.iteritems(self.start),
                            app_label='tests'):
            database_state.rescan_tables()

            app_mutator = AppMutator(app_label='tests',
                                     project_sig=test_sig,
                                     database_state=database_state,
                                     database='default')
            app_mutator.run_mutations(mutations)
            sql = app_mutator.to_sql()

            # From here on the tables are those of the target models (this
            # is what ensure_test_db() cleans up).
            register_app_models('tests', list(six.iteritems(end)),
                                reset=True)
            execute_test_sql(sql)

            evolved = get_columns()

        self.assertEqual(evolved, expected, 'hint was %r' % hint)
        self.assertTrue(Diff(test_sig, end_sig).is_empty())

    def test_drop_db_column(self):
        """CharField(db_column='xcol') -> CharField()"""
        class Old(BaseTestModel):
            f = models.CharField(max_length=50, db_column='xcol')

        class New(BaseTestModel):
            f = models.CharField(max_length=50)

        self._check(Old, New)

    def test_drop_db_column_on_foreign_key(self):
        """ForeignKey(db_column='xcol') -> ForeignKey()"""
        class Old(BaseTestModel):
            f = models.ForeignKey(ColAnchor, db_column='xcol',
                                  on_delete=models.CASCADE)

        class New(BaseTestModel):
            f = models.ForeignKey(ColAnchor, on_delete=models.CASCADE)

        self._check(Old, New)

    def test_m2m_custom_table_to_default(self):
        """ManyToManyField(db_table='custom_m2m') -> ManyToManyField()"""
        class Old(BaseTestModel):
            f = models.ManyToManyField(ColAnchor, db_table='custom_m2m')

        class New(BaseTestModel):
            f = models.ManyToManyField(ColAnchor)

        self._check(Old, New)

    def test_m2m_default_table_to_custom(self):
        """ManyToManyField() -> ManyToManyField(db_table='custom_m2m')"""
        class Old(BaseTestModel):
            f = models.ManyToManyField(ColAnchor)

        class New(BaseTestModel):
            f = models.ManyToManyField(ColAnchor, db_table='custom_m2m')

        self._check(Old, New)

    def test_control_set_db_column(self):
        """Control: CharField() -> CharField(db_column='xcol')"""
        class Old(BaseTestModel):
            f = models.CharField(max_length=50)

        class New(BaseTestModel):
            f = models.CharField(max_length=50, db_column='xcol')

        self._check(Old, New)
