from __future__ import unicode_literals

import itertools
import traceback

from django.db import models

from django_evolution.tests.models import BaseTestModel

from hunt_demo._closure import ClosureTestCase


_n = [0]


def mk(fields, meta=None, base=BaseTestModel):
    _n[0] += 1
    attrs = {'__module__': 'django_evolution.tests.models'}
    attrs.update({k: v() for k, v in fields.items()})

    if meta:
        attrs['Meta'] = type(str('Meta'), (), dict(meta))

    return type(str('M%d' % _n[0]), (base,), attrs)


class Anchor1(BaseTestModel):
    value = models.IntegerField()


class Anchor2(BaseTestModel):
    value = models.IntegerField()


FIELD_VARIANTS = {
    'char50': lambda: models.CharField(max_length=50),
    'char50_null': lambda: models.CharField(max_length=50, null=True),
    'char50_col': lambda: models.CharField(max_length=50, db_column='xcol'),
    'char50_idx': lambda: models.CharField(max_length=50, db_index=True),
    'char50_uniq': lambda: models.CharField(max_length=50, unique=True),
    'char20': lambda: models.CharField(max_length=20),
    'slug50': lambda: models.SlugField(max_length=50),
    'slug50_noidx': lambda: models.SlugField(max_length=50, db_index=False),
    'email50': lambda: models.EmailField(max_length=50),
    'text': lambda: models.TextField(),
    'text_null': lambda: models.TextField(null=True),
    'int': lambda: models.IntegerField(),
    'int_null': lambda: models.IntegerField(null=True),
    'int_idx': lambda: models.IntegerField(db_index=True),
    'int_uniq': lambda: models.IntegerField(unique=True),
    'int_col': lambda: models.IntegerField(db_column='icol'),
    'posint': lambda: models.PositiveIntegerField(),
    'bigint': lambda: models.BigIntegerField(),
    'bigint_null': lambda: models.BigIntegerField(null=True),
    'duration': lambda: models.DurationField(),
    'dec52': lambda: models.DecimalField(max_digits=5, decimal_places=2),
    'dec63_null': lambda: models.DecimalField(max_digits=6, decimal_places=3,
                                              null=True),
    'fk1': lambda: models.ForeignKey(Anchor1, on_delete=models.CASCADE),
    'fk1_null': lambda: models.ForeignKey(Anchor1, null=True,
                                          on_delete=models.CASCADE),
    'fk1_noidx': lambda: models.ForeignKey(Anchor1, db_index=False,
                                           on_delete=models.CASCADE),
    'o2o1': lambda: models.OneToOneField(Anchor1, on_delete=models.CASCADE),
    'o2o1_null': lambda: models.OneToOneField(Anchor1, null=True,
                                              on_delete=models.CASCADE),
    'json': lambda: models.JSONField(),
    'json_null': lambda: models.JSONField(null=True),
    'file': lambda: models.FileField(max_length=100),
    'filepath': lambda: models.FilePathField(max_length=100),
    'char100_null': lambda: models.CharField(max_length=100, null=True),
    'm2m1': lambda: models.ManyToManyField(Anchor1),
    'm2m1_tbl': lambda: models.ManyToManyField(Anchor1, db_table='cust_m2m'),
    'm2m1_null': lambda: models.ManyToManyField(Anchor1, null=True),
}


class ExploreTests(ClosureTestCase):
    def test_field_pairs(self):
        bad = []

        for a, b in itertools.permutations(sorted(FIELD_VARIANTS), 2):
            try:
                old = mk({'f': FIELD_VARIANTS[a]})
                new = mk({'f': FIELD_VARIANTS[b]})
                start, end, evolved, muts = self.closure(
                    old, new, pre_extra_models=[('Anchor1', Anchor1)])
                res = self.residual(evolved, end)

                if res != ('', ''):
                    bad.append((a, b, [str(m) for m in muts], res))
            except Exception as e:
                bad.append((a, b, 'EXC', '%s: %s' % (type(e).__name__, e)))

        for item in bad:
            print(item)

        print(len(bad))
