"""Shared helper for the hunt demos: diff -> hinted evolution -> simulate."""

from __future__ import unicode_literals

from django_evolution.diff import Diff
from django_evolution.tests.base_test_case import EvolutionTestCase


class ClosureTestCase(EvolutionTestCase):
    """Base class that checks the closure of diff -> hint -> simulate."""

    def closure(self, old_model, new_model, extra_models=[],
                pre_extra_models=[], name='TestModel', end_extra_models=None):
        """Run the hinted evolution on the old signature.

        Returns (start_sig, end_sig, evolved_sig, mutations).
        """
        self.set_base_model(old_model, name=name,
                            extra_models=extra_models,
                            pre_extra_models=pre_extra_models)
        start_sig = self.start_sig

        if end_extra_models is not None:
            self.extra_models = end_extra_models

        end, end_sig = self.make_end_signatures(new_model, name)

        d = Diff(start_sig, end_sig)
        mutations = d.evolution().get('tests', [])

        self.test_database_state = self.database_state.clone()
        test_sig = start_sig.clone()

        for mutation in mutations:
            mutation.run_simulation(app_label='tests',
                                    project_sig=test_sig,
                                    database_state=self.test_database_state,
                                    database='default')

        return start_sig, end_sig, test_sig, mutations

    def residual(self, evolved_sig, end_sig):
        """Return the remaining diff (both directions) as text."""
        fwd = Diff(evolved_sig, end_sig)
        back = Diff(end_sig, evolved_sig)

        return (str(fwd) if not fwd.is_empty(ignore_apps=False) else '',
                str(back) if not back.is_empty(ignore_apps=False) else '')
