"""Re-typing a field between two types that share a column type on the
backend leaves the old field's attributes in the signature.

Diff.evolution() treats a changed field type as a "hard reset" and only emits
the attributes the NEW field sets explicitly.  ChangeField.simulate() only
replaces the attributes when the *column type on the connection* changes
(CharField -> SlugField, BigIntegerField -> DurationField, TextField ->
JSONField ... all keep their column type on SQLite); otherwise it merges, so
attributes that went back to their default (null, unique, db_index,
db_column) survive.
"""

from __future__ import unicode_literals

from django.db import models

from django_evolution.diff import Diff
from django_evolution.tests.models import BaseTestModel

from hunt_demo._closure import ClosureTestCase


class RetypeSameDBTypeTests(ClosureTestCase):
    def _check(self, old_model, new_model):
        start_sig, end_sig, evolved_sig, mutations = \
            self.closure(old_model, new_model)

        self.assertFalse(Diff(start_sig, end_sig).is_empty())
        self.assertEqual(
            self.residual(evolved_sig, end_sig), ('', ''),
            'hinted evolution %r left a difference'
            % [str(m) for m in mutations])

    def test_char_null_to_slug(self):
        """CharField(null=True) -> SlugField()"""
        class Old(BaseTestModel):
            f = models.CharField(max_length=50, null=True)

        class New(BaseTestModel):
            f = models.SlugField(max_length=50)

        self._check(Old, New)

    def test_char_unique_db_column_to_slug(self):
        """CharField(unique=True, db_column=...) -> SlugField()"""
        class Old(BaseTestModel):
            f = models.CharField(max_length=50, unique=True, db_column='xcol')

        class New(BaseTestModel):
            f = models.SlugField(max_length=50)

        self._check(Old, New)

    def test_slug_to_char(self):
        """SlugField() -> CharField() (db_index goes back to False)"""
        class Old(BaseTestModel):
            f = models.SlugField(max_length=50)

        class New(BaseTestModel):
            f = models.CharField(max_length=50)

        self._check(Old, New)

    def test_bigint_null_to_duration(self):
        """BigIntegerField(null=True) -> DurationField()"""
        class Old(BaseTestModel):
            f = models.BigIntegerField(null=True)

        class New(BaseTestModel):
            f = models.DurationField()

        self._check(Old, New)

    def test_control_column_type_changes(self):
        """Control: CharField(null=True) -> TextField() resolves"""
        class Old(BaseTestModel):
            f = models.CharField(max_length=50, null=True)

        class New(BaseTestModel):
            f = models.TextField()

        self._check(Old, New)
