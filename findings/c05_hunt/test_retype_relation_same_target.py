"""Re-typing a relation field to another relation type with the SAME target
makes the hinted evolution unusable.

Diff.evolution() only passes related_model to ChangeField when the target
changed.  ChangeField needs the complete definition of the new field to build
it (mock_models.create_field), so ForeignKey -> OneToOneField on the same
target blows up with a TypeError inside the simulation.
"""

from __future__ import unicode_literals

from django.db import models

from django_evolution.diff import Diff
from django_evolution.tests.models import BaseTestModel

from hunt_demo._closure import ClosureTestCase


class RetypeAnchor(BaseTestModel):
    value = models.IntegerField()


class RetypeRelationTests(ClosureTestCase):
    def _check(self, old_model, new_model):
        start_sig, end_sig, evolved_sig, mutations = self.closure(
            old_model, new_model,
            pre_extra_models=[('RetypeAnchor', RetypeAnchor)])

        self.assertFalse(Diff(start_sig, end_sig).is_empty())
        self.assertEqual(
            self.residual(evolved_sig, end_sig), ('', ''),
            'hinted evolution %r left a difference'
            % [str(m) for m in mutations])

    def test_fk_to_one_to_one(self):
        """ForeignKey(A) -> OneToOneField(A)"""
        class Old(BaseTestModel):
            f = models.ForeignKey(RetypeAnchor, on_delete=models.CASCADE)

        class New(BaseTestModel):
            f = models.OneToOneField(RetypeAnchor, on_delete=models.CASCADE)

        self._check(Old, New)

    def test_fk_null_to_one_to_one_null(self):
        """ForeignKey(A, null=True) -> OneToOneField(A, null=True)"""
        class Old(BaseTestModel):
            f = models.ForeignKey(RetypeAnchor, null=True,
                                  on_delete=models.CASCADE)

        class New(BaseTestModel):
            f = models.OneToOneField(RetypeAnchor, null=True,
                                     on_delete=models.CASCADE)

        self._check(Old, New)

    def test_one_to_one_to_fk(self):
        """OneToOneField(A, null=True) -> ForeignKey(A, null=True)

        This direction additionally runs into the defect shown in
        test_retype_same_db_type_keeps_old_attrs.py (unique=True survives),
        so it needs HUNT_FIX_combined_retype.diff to pass.
        """
        class Old(BaseTestModel):
            f = models.OneToOneField(RetypeAnchor, null=True,
                                     on_delete=models.CASCADE)

        class New(BaseTestModel):
            f = models.ForeignKey(RetypeAnchor, null=True,
                                  on_delete=models.CASCADE)

        self._check(Old, New)
