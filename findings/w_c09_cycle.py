"""F-C09 witness: ordering requirements that cannot all be met are not
reported.  a requires b, b requires a: get_ordered() returns [] (nothing
would be executed, no error).  With a third node c requiring a, the result
[a, b, c] silently breaks 'a after b'."""
import _boot  # noqa
from django_evolution.utils.graph import DependencyGraph

g = DependencyGraph()
for k in 'ab':
    g.add_node(k)
g.add_dependency('a', 'b')
g.add_dependency('b', 'a')
g.finalize()
r1 = [n.key for n in g.get_ordered()]
print('2-cycle          ->', r1)

g = DependencyGraph()
for k in 'abc':
    g.add_node(k)
g.add_dependency('a', 'b')
g.add_dependency('b', 'a')
g.add_dependency('c', 'a')
g.finalize()
r2 = [n.key for n in g.get_ordered()]
print('2-cycle + c->a   ->', r2, "(requirement 'a after b' silently broken)")
raise SystemExit("no error was raised for unmeetable requirements")  # not reached since fix b1a0688
