"""F-C01a-e witness: a SQLite table rebuild (here caused by AddField) drops
the model's existing unique_together, Meta.indexes and Meta.constraints."""
from django.db import models, connection
from django_evolution.compat import six
from django_evolution.mutations import AddField
from django_evolution.mutators import AppMutator
from django_evolution.tests.base_test_case import EvolutionTestCase
from django_evolution.tests.models import BaseTestModel
from django_evolution.tests.utils import ensure_test_db, execute_test_sql


class MBase(BaseTestModel):
    a = models.IntegerField()
    b = models.IntegerField()

    class Meta(BaseTestModel.Meta):
        unique_together = [('a', 'b')]
        index_together = [('b', 'a')]
        indexes = [models.Index(fields=['b'], name='w_named_idx')]
        constraints = [models.CheckConstraint(check=models.Q(a__gte=0),
                                              name='w_a_gte_0')]


class MDest(BaseTestModel):
    a = models.IntegerField()
    b = models.IntegerField()
    c = models.IntegerField(null=True)

    class Meta(BaseTestModel.Meta):
        unique_together = [('a', 'b')]
        index_together = [('b', 'a')]
        indexes = [models.Index(fields=['b'], name='w_named_idx')]
        constraints = [models.CheckConstraint(check=models.Q(a__gte=0),
                                              name='w_a_gte_0')]


def schema_text():
    cur = connection.cursor()
    cur.execute("SELECT sql FROM sqlite_master WHERE tbl_name = "
                "'tests_testmodel' AND sql IS NOT NULL ORDER BY name")
    return '\n'.join(r[0] for r in cur.fetchall())


class T(EvolutionTestCase):
    default_base_model = MBase

    def test_it(self):
        end, end_sig = self.make_end_signatures(MDest, 'TestModel')
        self.test_database_state = self.database_state.clone()
        test_sig = self.start_sig.clone()
        with ensure_test_db(model_entries=six.iteritems(self.start),
                            end_model_entries=six.iteritems(end),
                            app_label='tests', database='default'):
            before = schema_text()
            self.test_database_state.rescan_tables()
            m = AppMutator(app_label='tests', project_sig=test_sig,
                           database_state=self.test_database_state,
                           database='default')
            m.run_mutations([AddField('TestModel', 'c', models.IntegerField,
                                      null=True)])
            execute_test_sql(m.to_sql(), database='default')
            after = schema_text()
            print('BEFORE:\n' + before)
            print('AFTER:\n' + after)
            for token in ('w_named_idx', 'w_a_gte_0', 'UNIQUE', '_idx" ON "tests_testmodel" ("b", "a")'):
                self.assertEqual(token in before, token in after,
                                 '%s lost by the rebuild' % token)
