"""A RenameModel after an SQLMutation barrier is dropped by mistake.

When collapsing RenameModels, AppMutator._process_mutation_batch() drops a
RenameModel whose new name "is already in the baseline and whose old name
isn't". It looks that up in ``self.project_sig``, but all batches are
pre-processed before the first mutation is run, so for every batch after
the first one the lookup is made against the signature from *before* the
earlier batches. Renaming a model away and (after an SQLMutation) back
again makes the second rename look redundant, and it is silently dropped.
"""
from __future__ import unicode_literals

import os
import sys

from django.db import connections, models

from django_evolution.mutations import RenameModel, SQLMutation
from django_evolution.tests.base_test_case import EvolutionTestCase
from django_evolution.tests.models import BaseTestModel

sys.path.insert(0, os.path.dirname(__file__))
import _harness as H  # noqa


class StaleModelA(BaseTestModel):
    f1 = models.IntegerField()


def _noop(simulation):
    pass


class RenameModelStaleBaselineTests(EvolutionTestCase):
    default_model_name = 'A'
    default_base_model = StaleModelA

    def create_data(self):
        cursor = connections['default'].cursor()
        cursor.execute("INSERT INTO tests_a (id, f1) VALUES (1, 10)")

    def test_rename_sql_rename_back(self):
        """RenameModel(A, C) + SQLMutation + RenameModel(C, A)"""
        problems = H.check(
            self.start, self.start_sig,
            lambda: [
                RenameModel('A', 'C', db_table='tests_c'),
                SQLMutation('barrier', ['SELECT 1;'], update_func=_noop),
                RenameModel('C', 'A', db_table='tests_a'),
            ],
            self.create_data)
        self.assertEqual(problems, [],
                         '\n' + '\n'.join(text for kind, text in problems))
