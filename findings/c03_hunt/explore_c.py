"""Exploration: relations, m2m, db_column, type changes (not a deliverable)."""
from __future__ import print_function, unicode_literals

import os
import sys

from django.db import connections, models

from django_evolution.mutations import (AddField, ChangeField, ChangeMeta,
                                        DeleteField, DeleteModel, RenameField,
                                        RenameModel, SQLMutation)
from django_evolution.tests.base_test_case import EvolutionTestCase
from django_evolution.tests.models import BaseTestModel

sys.path.insert(0, os.path.dirname(__file__))
from explore_a import ExploreBase, noop  # noqa


class HuntCB(BaseTestModel):
    g1 = models.IntegerField()


class HuntCA(BaseTestModel):
    f1 = models.IntegerField()
    f2 = models.CharField(max_length=20)
    fk = models.ForeignKey(HuntCB, null=True, on_delete=models.CASCADE)
    m = models.ManyToManyField(HuntCB)
    c1 = models.IntegerField(db_column='custom_c1', null=True)


ALPHABET = {
    'add_fk2': lambda: AddField('A', 'fk2', models.ForeignKey, null=True,
                                related_model='tests.B'),
    'add_fk2_C': lambda: AddField('A', 'fk2', models.ForeignKey, null=True,
                                  related_model='tests.C'),
    'del_fk': lambda: DeleteField('A', 'fk'),
    'del_fk2': lambda: DeleteField('A', 'fk2'),
    'ren_fk_fk2': lambda: RenameField('A', 'fk', 'fk2'),
    'ren_fk2_fk3': lambda: RenameField('A', 'fk2', 'fk3',
                                       db_column='fk3_col'),
    'chg_fk_idx': lambda: ChangeField('A', 'fk', db_index=False),
    'chg_fk2_idx': lambda: ChangeField('A', 'fk2', db_index=False),
    'add_m2': lambda: AddField('A', 'm2', models.ManyToManyField,
                               related_model='tests.B'),
    'del_m': lambda: DeleteField('A', 'm'),
    'del_m2': lambda: DeleteField('A', 'm2'),
    'ren_m_m2': lambda: RenameField('A', 'm', 'm2'),
    'ren_m2_m3': lambda: RenameField('A', 'm2', 'm3',
                                     db_table='custom_m3'),
    'ren_c1_c2': lambda: RenameField('A', 'c1', 'c2'),
    'ren_c1_c2_col': lambda: RenameField('A', 'c1', 'c2',
                                         db_column='custom_c1'),
    'ren_c2_c1': lambda: RenameField('A', 'c2', 'c1'),
    'chg_c1_notnull': lambda: ChangeField('A', 'c1', null=False, initial=5),
    'chg_c2_notnull': lambda: ChangeField('A', 'c2', null=False, initial=6),
    'chg_f1_char': lambda: ChangeField('A', 'f1',
                                       field_type=models.CharField,
                                       max_length=10),
    'chg_f1_null': lambda: ChangeField('A', 'f1', null=True),
    'chg_f1_len': lambda: ChangeField('A', 'f1', max_length=30),
    'chg_f2_uniq': lambda: ChangeField('A', 'f2', unique=True),
    'chg_f2_nouniq': lambda: ChangeField('A', 'f2', unique=False),
    'chg_f2_idx': lambda: ChangeField('A', 'f2', db_index=True),
    'chg_f2_noidx': lambda: ChangeField('A', 'f2', db_index=False),
    'chg_f2_int': lambda: ChangeField('A', 'f2',
                                      field_type=models.IntegerField),
    'ren_f2_n2': lambda: RenameField('A', 'f2', 'n2'),
    'chg_n2_uniq': lambda: ChangeField('A', 'n2', unique=True),
    'renmB_C': lambda: RenameModel('B', 'C', db_table='tests_b'),
    'renmB_C_tbl': lambda: RenameModel('B', 'C', db_table='tests_c'),
    'renmA_D': lambda: RenameModel('A', 'D', db_table='tests_d'),
    'delD_f1': lambda: DeleteField('D', 'f1'),
    'delmA': lambda: DeleteModel('A'),
    'sql': lambda: SQLMutation('barrier', ['SELECT 1;'], update_func=noop),
}


class Explore(ExploreBase, EvolutionTestCase):
    ALPHABET = ALPHABET
    default_model_name = 'A'
    default_base_model = HuntCA
    default_pre_extra_models = [('B', HuntCB)]

    def create_data(self):
        cursor = connections['default'].cursor()
        cursor.execute("INSERT INTO tests_b (id, g1) VALUES (1, 100)")
        cursor.execute("INSERT INTO tests_b (id, g1) VALUES (2, 200)")
        cursor.execute("INSERT INTO tests_a (id, f1, f2, fk_id, custom_c1)"
                       " VALUES (1, 10, '11', 1, NULL)")
        cursor.execute("INSERT INTO tests_a (id, f1, f2, fk_id, custom_c1)"
                       " VALUES (2, 20, '22', NULL, 3)")
        cursor.execute("INSERT INTO tests_a_m"
                       " VALUES (1, 1, 2)")
