"""Differential harness: optimised run vs one-mutation-at-a-time.

Not a test by itself (name starts with an underscore).
"""
from __future__ import unicode_literals

import copy
import json
import os
import logging
from contextlib import contextmanager

from django.db import connections

from django_evolution.compat.apps import register_app_models
from django_evolution.compat.db import sql_create_app
from django_evolution.db.state import DatabaseState
from django_evolution.mutators import AppMutator
from django_evolution.tests import models as evo_test
from django_evolution.tests.utils import execute_test_sql


DB = 'default'


def list_tables():
    cursor = connections[DB].cursor()
    cursor.execute("SELECT name FROM sqlite_master WHERE type='table'"
                   " AND name NOT LIKE 'sqlite_%'")
    return set(row[0] for row in cursor.fetchall())


def drop_tables(names):
    cursor = connections[DB].cursor()
    cursor.execute('PRAGMA foreign_keys = OFF')

    for name in names:
        cursor.execute('DROP TABLE IF EXISTS "%s"' % name)


@contextmanager
def fresh_db(start, create_data=None):
    """Create the tables for the start models, drop everything afterwards."""
    baseline = list_tables()
    register_app_models(app_label='tests', model_infos=list(start.items()),
                        reset=True)

    try:
        execute_test_sql(sql_create_app(app=evo_test, db_name=DB),
                         database=DB)

        if create_data:
            create_data()

        yield baseline
    finally:
        drop_tables(list_tables() - baseline)


def snapshot(baseline, with_index_names=True):
    """Return a comparable description of schema and rows."""
    cursor = connections[DB].cursor()
    result = {}

    for table in sorted(list_tables() - baseline):
        cursor.execute('PRAGMA table_info("%s")' % table)
        cols = {}
        col_names = []

        for cid, name, ctype, notnull, dflt, pk in cursor.fetchall():
            cols[name] = (ctype.lower(), bool(notnull), dflt, bool(pk))
            col_names.append(name)

        cursor.execute('PRAGMA index_list("%s")' % table)
        indexes = []

        for row in cursor.fetchall():
            index_name = row[1]
            unique = bool(row[2])
            cursor.execute('PRAGMA index_info("%s")' % index_name)
            index_cols = tuple(r[2] for r in cursor.fetchall())

            if os.environ.get('HUNT_IGNORE_MULTI') and len(index_cols) > 1:
                continue

            if index_name.startswith('sqlite_autoindex'):
                index_name = '<auto>'

            if with_index_names:
                indexes.append((index_name, unique, index_cols))
            else:
                indexes.append((unique, index_cols))

        cursor.execute('PRAGMA foreign_key_list("%s")' % table)
        fks = sorted((r[3], r[2], r[4]) for r in cursor.fetchall())

        cursor.execute('SELECT * FROM "%s"' % table)
        rows = sorted(
            (sorted(zip(col_names, [repr(v) for v in row]))
             for row in cursor.fetchall()),
            key=repr)

        result[table] = {
            'columns': cols,
            'indexes': sorted(indexes, key=repr),
            'fks': fks,
            'rows': rows,
        }

    return result


def sig_dump(project_sig, app_label='tests'):
    app_sig = project_sig.get_app_sig(app_label)

    if app_sig is None:
        return None

    return json.dumps(app_sig.serialize(sig_version=2), sort_keys=True,
                      default=repr)


def models_dump(project_sig, app_label='tests'):
    app_sig = project_sig.get_app_sig(app_label)

    if app_sig is None:
        return None

    return json.dumps(app_sig.serialize(sig_version=2)['models'],
                      sort_keys=True, default=repr)


def run_sequential(start_sig, mutations):
    """Apply every mutation in its own AppMutator run and execute it."""
    sig = start_sig.clone()
    all_sql = []

    for mutation in mutations:
        db_state = DatabaseState(DB, scan=True)
        app_mutator = AppMutator(app_label='tests', project_sig=sig,
                                 database_state=db_state, database=DB)
        app_mutator.run_mutations([mutation])
        sql = app_mutator.to_sql()
        all_sql.append(execute_test_sql(sql, database=DB))

    return sig, all_sql


def run_optimised(start_sig, mutations):
    """Apply all mutations in one optimised AppMutator run."""
    sig = start_sig.clone()
    db_state = DatabaseState(DB, scan=True)
    app_mutator = AppMutator(app_label='tests', project_sig=sig,
                             database_state=db_state, database=DB)
    app_mutator.run_mutations(mutations)
    sql = app_mutator.to_sql()
    replay_sig = app_mutator.project_sig

    return sig, execute_test_sql(sql, database=DB), replay_sig


def run_evolver(start_sig, mutations, split=None):
    """Apply all mutations through Evolver + EvolveAppTask."""
    from django_evolution.evolve import Evolver, EvolveAppTask
    from django_evolution.models import Evolution, Version

    Evolution.objects.all().delete()
    Version.objects.all().delete()
    Evolver()

    version = Version.objects.current_version()
    sig = version.signature

    if sig.get_app_sig('tests') is not None:
        sig.remove_app_sig('tests')

    sig.add_app_sig(start_sig.get_app_sig('tests').clone())
    version.save()

    if split:
        evolutions = [
            {'label': 'hunt1', 'mutations': mutations[:split]},
            {'label': 'hunt2', 'mutations': mutations[split:]},
        ]
    else:
        evolutions = [{'label': 'hunt1', 'mutations': mutations}]

    evolver = Evolver()
    task = EvolveAppTask(evolver=evolver, app=evo_test,
                         evolutions=evolutions)
    evolver.queue_task(task)

    try:
        evolver.evolve()
    finally:
        # prepare_tasks() leaves these registered when it fails.
        from django_evolution.utils.migrations import \
            clear_global_custom_migrations
        clear_global_custom_migrations()

    stored_sig = Version.objects.current_version().signature

    return evolver.project_sig, stored_sig


def simulate_valid(start_sig, mutations):
    """Return whether the sequence is valid one at a time (simulation)."""
    from django_evolution.errors import SimulationFailure
    sig = start_sig.clone()
    db_state = DatabaseState(DB, scan=False)

    try:
        for mutation in mutations:
            mutation.run_simulation(app_label='tests', project_sig=sig,
                                    database_state=db_state, database=DB)
    except SimulationFailure:
        return False
    except Exception:
        return False

    return True


def check(start, start_sig, make_mutations, create_data=None,
          with_index_names=False, evolver=True, quiet=True):
    """Run one-at-a-time, optimised and Evolver runs; return problem list.

    Every entry is a (kind, text) tuple. An empty list means that the three
    runs agree. Raises ValueError if the sequence isn't valid one at a time.
    """
    if quiet:
        logging.disable(logging.CRITICAL)

    problems = []

    try:
        with fresh_db(start, create_data) as baseline:
            try:
                seq_sig, seq_sql = run_sequential(start_sig, make_mutations())
            except Exception as e:
                raise ValueError('not valid one at a time: %s: %s'
                                 % (type(e).__name__, e))

            seq_snap = snapshot(baseline, with_index_names)

        with fresh_db(start, create_data) as baseline:
            try:
                opt_sig, opt_sql, replay_sig = run_optimised(
                    start_sig, make_mutations())
                opt_snap = snapshot(baseline, with_index_names)

                if models_dump(seq_sig) != models_dump(opt_sig):
                    problems.append((
                        'sig-diff',
                        'AppMutator: final signature differs:\n'
                        '  one-at-a-time: %s\n  optimised:     %s'
                        % (models_dump(seq_sig), models_dump(opt_sig))))

                if seq_snap != opt_snap:
                    problems.append((
                        'db-diff',
                        'AppMutator: final database differs:\n%s'
                        % describe_db_diff(seq_snap, opt_snap)))
            except Exception as e:
                problems.append((
                    'opt-error',
                    'AppMutator: optimised run rejected: %s: %s'
                    % (type(e).__name__, e)))

        if evolver:
            with fresh_db(start, create_data) as baseline:
                try:
                    muts = make_mutations()
                    before = [str(m) for m in muts]
                    evo_sig, stored_sig = run_evolver(start_sig, muts)
                    after = [str(m) for m in muts]
                    evo_snap = snapshot(baseline, with_index_names)

                    if before != after:
                        problems.append((
                            'evo-mutated-defs',
                            'Evolver: mutation definitions were altered:\n'
                            '  before: %s\n  after:  %s' % (before, after)))

                    if models_dump(evo_sig) != models_dump(seq_sig):
                        problems.append((
                            'evo-sig-diff',
                            'Evolver: final signature differs:\n'
                            '  one-at-a-time: %s\n  evolver:       %s'
                            % (models_dump(seq_sig), models_dump(evo_sig))))
                    elif models_dump(stored_sig) != models_dump(seq_sig):
                        problems.append((
                            'evo-stored-sig-diff',
                            'Evolver: stored signature differs:\n'
                            '  one-at-a-time: %s\n  stored:        %s'
                            % (models_dump(seq_sig),
                               models_dump(stored_sig))))

                    if evo_snap != seq_snap:
                        problems.append((
                            'evo-db-diff',
                            'Evolver: final database differs:\n%s'
                            % describe_db_diff(seq_snap, evo_snap)))
                except Exception as e:
                    problems.append((
                        'evo-error',
                        'Evolver: run rejected: %s: %s'
                        % (type(e).__name__, e)))
    finally:
        logging.disable(logging.NOTSET)

    return problems


class Outcome(object):
    def __init__(self):
        self.kind = None
        self.details = None


def compare(start, start_sig, make_mutations, create_data=None,
            with_index_names=True, quiet=True):
    """Run both paths; return (kind, details).

    kind is one of 'ok', 'seq-error', 'opt-error', 'sig-diff', 'db-diff',
    'replay-sig-diff'.
    """
    prev_level = logging.getLogger().level

    if os.environ.get('HUNT_NO_INDEX_NAMES'):
        with_index_names = False

    if quiet:
        logging.disable(logging.CRITICAL)

    try:
        with fresh_db(start, create_data) as baseline:
            try:
                seq_sig, seq_sql = run_sequential(start_sig, make_mutations())
            except Exception as e:
                return 'seq-error', '%s: %s' % (type(e).__name__, e)

            seq_snap = snapshot(baseline, with_index_names)

        with fresh_db(start, create_data) as baseline:
            try:
                opt_sig, opt_sql, replay_sig = run_optimised(
                    start_sig, make_mutations())
            except Exception as e:
                return 'opt-error', '%s: %s' % (type(e).__name__, e)

            opt_snap = snapshot(baseline, with_index_names)

        evo_result = None

        if os.environ.get('HUNT_EVOLVER'):
            with fresh_db(start, create_data) as baseline:
                try:
                    muts = make_mutations()
                    before = [str(m) for m in muts]
                    evo_sig, stored_sig = run_evolver(start_sig, muts)
                    after = [str(m) for m in muts]
                    evo_snap = snapshot(baseline, with_index_names)
                    evo_result = (evo_sig, stored_sig, evo_snap, before,
                                  after)
                except Exception as e:
                    import traceback
                    return 'evo-error', '%s: %s\n%s' % (
                        type(e).__name__, e, traceback.format_exc())
    finally:
        logging.disable(logging.NOTSET)
        logging.getLogger().setLevel(prev_level)

    if evo_result:
        evo_sig, stored_sig, evo_snap, before, after = evo_result

        if before != after:
            return 'evo-mutated-defs', (before, after)

        if models_dump(evo_sig) != models_dump(seq_sig):
            return 'evo-sig-diff', (models_dump(seq_sig),
                                    models_dump(evo_sig))

        if models_dump(stored_sig) != models_dump(seq_sig):
            return 'evo-stored-sig-diff', (models_dump(seq_sig),
                                           models_dump(stored_sig))

        if evo_snap != seq_snap:
            return 'evo-db-diff', (seq_snap, evo_snap, seq_sql, None)

    if sig_dump(seq_sig) != sig_dump(opt_sig):
        return 'sig-diff', (sig_dump(seq_sig), sig_dump(opt_sig))

    if os.environ.get('HUNT_REPLAY') and sig_dump(replay_sig) != sig_dump(opt_sig):
        return 'replay-sig-diff', (sig_dump(opt_sig), sig_dump(replay_sig))

    if seq_snap != opt_snap:
        return 'db-diff', (seq_snap, opt_snap, seq_sql, opt_sql)

    return 'ok', None


def describe_db_diff(seq_snap, opt_snap):
    lines = []

    for table in sorted(set(seq_snap) | set(opt_snap)):
        a = seq_snap.get(table)
        b = opt_snap.get(table)

        if a == b:
            continue

        if a is None or b is None:
            lines.append('table %s: sequential=%s optimised=%s'
                         % (table, 'present' if a else 'absent',
                            'present' if b else 'absent'))
            continue

        for key in ('columns', 'indexes', 'fks', 'rows'):
            if a[key] != b[key]:
                lines.append('table %s %s:\n    sequential=%r\n    optimised =%r'
                             % (table, key, a[key], b[key]))

    return '\n'.join(lines)
