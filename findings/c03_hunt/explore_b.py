"""Exploration: model-name reuse (not a deliverable)."""
from __future__ import print_function, unicode_literals

import os
import sys

from django.db import connections, models

from django_evolution.mutations import (AddField, ChangeField, ChangeMeta,
                                        DeleteField, DeleteModel, RenameField,
                                        RenameModel, SQLMutation)
from django_evolution.tests.base_test_case import EvolutionTestCase
from django_evolution.tests.models import BaseTestModel

sys.path.insert(0, os.path.dirname(__file__))
from explore_a import ExploreBase, noop  # noqa


class HuntBA(BaseTestModel):
    f1 = models.IntegerField()
    f2 = models.CharField(max_length=20)


class HuntBB(BaseTestModel):
    f1 = models.IntegerField()
    g2 = models.CharField(max_length=10, null=True)


ALPHABET = {
    'renmA_C': lambda: RenameModel('A', 'C', db_table='tests_c'),
    'renmC_A': lambda: RenameModel('C', 'A', db_table='tests_a'),
    'renmB_A': lambda: RenameModel('B', 'A', db_table='tests_a'),
    'renmA_B': lambda: RenameModel('A', 'B', db_table='tests_b'),
    'renmB_C': lambda: RenameModel('B', 'C', db_table='tests_c'),
    'renmC_B': lambda: RenameModel('C', 'B', db_table='tests_b'),
    'renmC_D': lambda: RenameModel('C', 'D', db_table='tests_d'),
    'delmA': lambda: DeleteModel('A'),
    'delmB': lambda: DeleteModel('B'),
    'delmC': lambda: DeleteModel('C'),
    'addA_n1': lambda: AddField('A', 'n1', models.IntegerField, initial=7),
    'addB_n1': lambda: AddField('B', 'n1', models.IntegerField, initial=8),
    'addC_n1': lambda: AddField('C', 'n1', models.IntegerField, initial=9),
    'delA_f1': lambda: DeleteField('A', 'f1'),
    'delB_f1': lambda: DeleteField('B', 'f1'),
    'delC_f1': lambda: DeleteField('C', 'f1'),
    'delA_n1': lambda: DeleteField('A', 'n1'),
    'delB_n1': lambda: DeleteField('B', 'n1'),
    'chgA_f1_null': lambda: ChangeField('A', 'f1', null=True),
    'chgB_f1_null': lambda: ChangeField('B', 'f1', null=True),
    'chgC_f1_null': lambda: ChangeField('C', 'f1', null=True),
    'renA_f1_n1': lambda: RenameField('A', 'f1', 'n1'),
    'renB_f1_n1': lambda: RenameField('B', 'f1', 'n1'),
    'renC_f1_n1': lambda: RenameField('C', 'f1', 'n1'),
    'metaA_ut': lambda: ChangeMeta('A', 'unique_together', [('f1', 'id')]),
    'metaB_ut': lambda: ChangeMeta('B', 'unique_together', [('f1', 'id')]),
    'metaA_ut0': lambda: ChangeMeta('A', 'unique_together', []),
    'sql': lambda: SQLMutation('barrier', ['SELECT 1;'], update_func=noop),
}


class Explore(ExploreBase, EvolutionTestCase):
    ALPHABET = ALPHABET
    default_model_name = 'A'
    default_base_model = HuntBA
    default_extra_models = [('B', HuntBB)]

    def create_data(self):
        cursor = connections['default'].cursor()
        cursor.execute("INSERT INTO tests_a (id, f1, f2)"
                       " VALUES (1, 10, 'aa')")
        cursor.execute("INSERT INTO tests_a (id, f1, f2)"
                       " VALUES (2, 20, 'bb')")
        cursor.execute("INSERT INTO tests_b (id, f1, g2)"
                       " VALUES (1, 100, 'zz')")
