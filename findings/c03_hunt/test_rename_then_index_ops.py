"""Index operations after a table/column rename in the same run go wrong.

RenameModel.mutate() and RenameField.mutate() generate their SQL as soon as
the mutation is scheduled, and neither rename_table() nor rename_column()
tells the DatabaseState about the new table/column name. All other
operations generate their SQL later (ModelMutator.to_sql()) and look indexes
up in the DatabaseState by table and column name. In a single run, anything
that follows the rename and needs index state is therefore either rejected
("table is not being tracked") or silently does nothing (index not dropped).

One mutation at a time this works, as the database is rescanned in between.
"""
from __future__ import unicode_literals

import os
import sys

from django.db import connections, models

from django_evolution.mutations import (AddField, ChangeField, RenameField,
                                        RenameModel)
from django_evolution.tests.base_test_case import EvolutionTestCase
from django_evolution.tests.models import BaseTestModel

sys.path.insert(0, os.path.dirname(__file__))
import _harness as H  # noqa


class RenIdxModelA(BaseTestModel):
    f1 = models.IntegerField()
    f3 = models.IntegerField(null=True, db_index=True)


class RenIdxModelB(BaseTestModel):
    g1 = models.IntegerField()


class RenameThenIndexOpsTests(EvolutionTestCase):
    default_model_name = 'A'
    default_base_model = RenIdxModelA
    default_extra_models = [('B', RenIdxModelB)]

    def create_data(self):
        cursor = connections['default'].cursor()
        cursor.execute("INSERT INTO tests_a (id, f1, f3) VALUES (1, 10, 30)")
        cursor.execute("INSERT INTO tests_b (id, g1) VALUES (1, 20)")

    def check(self, make_mutations):
        problems = H.check(self.start, self.start_sig, make_mutations,
                           self.create_data)
        self.assertEqual(problems, [],
                         '\n' + '\n'.join(text for kind, text in problems))

    def test_rename_model_add_indexed_field(self):
        """RenameModel(A, C, db_table=tests_c) + AddField(C, db_index=True)"""
        self.check(lambda: [
            RenameModel('A', 'C', db_table='tests_c'),
            AddField('C', 'n1', models.IntegerField, initial=5,
                     db_index=True),
        ])

    def test_rename_model_add_foreign_key(self):
        """RenameModel(A, C, db_table=tests_c) + AddField(C, ForeignKey)"""
        self.check(lambda: [
            RenameModel('A', 'C', db_table='tests_c'),
            AddField('C', 'fk', models.ForeignKey, null=True,
                     related_model='tests.B'),
        ])

    def test_rename_model_make_field_unique(self):
        """RenameModel(A, C, db_table=tests_c) + ChangeField(unique=True)"""
        self.check(lambda: [
            RenameModel('A', 'C', db_table='tests_c'),
            ChangeField('C', 'f1', unique=True),
        ])

    def test_rename_model_drop_db_index(self):
        """RenameModel(A, C, db_table=tests_c) + ChangeField(db_index=False)
        """
        self.check(lambda: [
            RenameModel('A', 'C', db_table='tests_c'),
            ChangeField('C', 'f3', db_index=False),
        ])

    def test_rename_field_drop_db_index(self):
        """RenameField(f3, n3) + ChangeField(n3, db_index=False)"""
        self.check(lambda: [
            RenameField('A', 'f3', 'n3'),
            ChangeField('A', 'n3', db_index=False),
        ])

    def test_drop_db_index_rename_field(self):
        """ChangeField(f3, db_index=False) + RenameField(f3, n3)

        This order works on the unmodified code; it's here to keep a repair
        honest (the rename must not be applied to the DatabaseState before
        the earlier operation has been generated).
        """
        self.check(lambda: [
            ChangeField('A', 'f3', db_index=False),
            RenameField('A', 'f3', 'n3'),
        ])

    def test_drop_db_index_rename_model(self):
        """ChangeField(A, f3, db_index=False) + RenameModel(A, C)

        Works on the unmodified code; see above.
        """
        self.check(lambda: [
            ChangeField('A', 'f3', db_index=False),
            RenameModel('A', 'C', db_table='tests_c'),
        ])
