"""SQLite table rebuilds silently drop unique_together/index_together indexes.

SQLiteAlterTableSQLResult.to_sql() rebuilds a table by creating a new one,
copying the rows, dropping the old table (which drops *all* its indexes) and
then only recreating the per-field indexes (the temporary ``_Model._meta`` it
hands to sql_indexes_for_model() has ``index_together = []`` and
``indexes = []``, and unique_together isn't considered at all).

For this property that shows up in two ways:

* One at a time, a ChangeMeta that adds unique_together/index_together is
  undone by the next mutation that rebuilds the table (AddField, ...). When
  both are merged into one rebuild, the index SQL is run after the rebuild
  and survives. The two end up with different schemas.

* When the index already exists and a ChangeMeta removes it in the same run
  as a rebuild, the DROP INDEX is run after the rebuild has already dropped
  the index, and the optimised run is rejected ("no such index").
"""
from __future__ import unicode_literals

import os
import sys

from django.db import connections, models

from django_evolution.mutations import AddField, ChangeMeta
from django_evolution.tests.base_test_case import EvolutionTestCase
from django_evolution.tests.models import BaseTestModel

sys.path.insert(0, os.path.dirname(__file__))
import _harness as H  # noqa


class RebuildPlainModel(BaseTestModel):
    f1 = models.IntegerField()
    f2 = models.CharField(max_length=20)
    f3 = models.IntegerField(null=True)


class RebuildTogetherModel(BaseTestModel):
    f1 = models.IntegerField()
    f2 = models.CharField(max_length=20)
    f3 = models.IntegerField(null=True)

    class Meta(BaseTestModel.Meta):
        unique_together = [('f1', 'f2')]
        index_together = [('f1', 'f3')]


def _create_data():
    cursor = connections['default'].cursor()
    cursor.execute("INSERT INTO tests_a (id, f1, f2, f3)"
                   " VALUES (1, 10, 'a', 1)")
    cursor.execute("INSERT INTO tests_a (id, f1, f2, f3)"
                   " VALUES (2, 20, 'a', 2)")


class _Base(EvolutionTestCase):
    default_model_name = 'A'

    def check(self, make_mutations):
        problems = H.check(self.start, self.start_sig, make_mutations,
                           _create_data)
        self.assertEqual(problems, [],
                         '\n' + '\n'.join(text for kind, text in problems))


class RebuildAfterAddingTogetherTests(_Base):
    default_base_model = RebuildPlainModel

    def test_add_unique_together_then_add_field(self):
        """ChangeMeta(unique_together=[(f1, f2)]) + AddField(n1)"""
        self.check(lambda: [
            ChangeMeta('A', 'unique_together', [('f1', 'f2')]),
            AddField('A', 'n1', models.IntegerField, initial=7),
        ])

    def test_add_index_together_then_add_field(self):
        """ChangeMeta(index_together=[(f1, f3)]) + AddField(n1)"""
        self.check(lambda: [
            ChangeMeta('A', 'index_together', [('f1', 'f3')]),
            AddField('A', 'n1', models.IntegerField, initial=7),
        ])


class RebuildWhileRemovingTogetherTests(_Base):
    default_base_model = RebuildTogetherModel

    def test_remove_unique_together_and_add_field(self):
        """ChangeMeta(unique_together=[]) + AddField(n1)"""
        self.check(lambda: [
            ChangeMeta('A', 'unique_together', []),
            AddField('A', 'n1', models.IntegerField, initial=7),
        ])

    def test_add_field_and_remove_index_together(self):
        """AddField(n1) + ChangeMeta(index_together=[])"""
        self.check(lambda: [
            AddField('A', 'n1', models.IntegerField, initial=7),
            ChangeMeta('A', 'index_together', []),
        ])
