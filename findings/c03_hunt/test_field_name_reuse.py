"""The optimiser identifies a field by its name for the whole batch.

AppMutator._process_mutation_batch() keys everything it tracks
(``deleted_fields``, ``noop_fields``, ``renames``, ``last_change_mutations``)
by ``(model_name, field_name)`` and collapses/moves mutations on that basis.
When a name is freed (DeleteField, or RenameField away from it) and then
used again for a *different* field in the same batch (AddField, or
RenameField to it), the mutations for the two fields are mixed up.

Every sequence below is valid one mutation at a time.
"""
from __future__ import unicode_literals

import os
import sys

from django.db import connections, models

from django_evolution.mutations import AddField, DeleteField, RenameField
from django_evolution.tests.base_test_case import EvolutionTestCase
from django_evolution.tests.models import BaseTestModel

sys.path.insert(0, os.path.dirname(__file__))
import _harness as H  # noqa


class ReuseModelA(BaseTestModel):
    f1 = models.IntegerField()
    f2 = models.CharField(max_length=20)
    f3 = models.IntegerField(null=True)


class FieldNameReuseTests(EvolutionTestCase):
    default_model_name = 'A'
    default_base_model = ReuseModelA

    def create_data(self):
        cursor = connections['default'].cursor()
        cursor.execute("INSERT INTO tests_a (id, f1, f2, f3)"
                       " VALUES (1, 10, 'aa', NULL)")
        cursor.execute("INSERT INTO tests_a (id, f1, f2, f3)"
                       " VALUES (2, 20, 'bb', 30)")

    def check(self, make_mutations):
        problems = H.check(self.start, self.start_sig, make_mutations,
                           self.create_data)
        self.assertEqual(problems, [],
                         '\n' + '\n'.join(text for kind, text in problems))

    def test_delete_add_delete(self):
        """DeleteField(f2) + AddField(f2) + DeleteField(f2): f2 survives"""
        self.check(lambda: [
            DeleteField('A', 'f2'),
            AddField('A', 'f2', models.IntegerField, initial=3),
            DeleteField('A', 'f2'),
        ])

    def test_rename_away_add_delete_renamed(self):
        """RenameField(f1, n1) + AddField(f1) + DeleteField(n1)"""
        self.check(lambda: [
            RenameField('A', 'f1', 'n1'),
            AddField('A', 'f1', models.IntegerField, null=True),
            DeleteField('A', 'n1'),
        ])

    def test_rename_away_add_delete_added(self):
        """RenameField(f1, n1) + AddField(f1) + DeleteField(f1): n1 is lost"""
        self.check(lambda: [
            RenameField('A', 'f1', 'n1'),
            AddField('A', 'f1', models.IntegerField, null=True),
            DeleteField('A', 'f1'),
        ])

    def test_add_delete_other_rename_onto_it(self):
        """AddField(n1) + DeleteField(f1) + RenameField(n1, f1)"""
        self.check(lambda: [
            AddField('A', 'n1', models.IntegerField, initial=7),
            DeleteField('A', 'f1'),
            RenameField('A', 'n1', 'f1'),
        ])

    def test_rename_away_rename_onto_delete(self):
        """RenameField(f1, n1) + RenameField(f2, f1) + DeleteField(n1)"""
        self.check(lambda: [
            RenameField('A', 'f1', 'n1'),
            RenameField('A', 'f2', 'f1'),
            DeleteField('A', 'n1'),
        ])

    def test_rename_delete_other_rename_onto_it(self):
        """RenameField(f3, n1) + DeleteField(f1) + RenameField(n1, f1)"""
        self.check(lambda: [
            RenameField('A', 'f3', 'n1'),
            DeleteField('A', 'f1'),
            RenameField('A', 'n1', 'f1'),
        ])
