"""Collapsed RenameFields take the name, but not the column/table, of the last.

A RenameField sets the column (``db_column``) or the ManyToManyField table
(``db_table``) of the renamed field: to the given value, or back to the
default derived from the new name when none is given.

When AppMutator._process_mutation_batch() collapses a chain of RenameFields
into the first RenameField, only ``new_field_name`` is taken from the last
rename (``db_column``/``db_table`` stay those of the first). When it
collapses them into an AddField, a ``db_column`` is only copied if set (it's
never reset), and ``db_table`` is ignored.
"""
from __future__ import unicode_literals

import os
import sys

from django.db import connections, models

from django_evolution.mutations import AddField, RenameField
from django_evolution.tests.base_test_case import EvolutionTestCase
from django_evolution.tests.models import BaseTestModel

sys.path.insert(0, os.path.dirname(__file__))
import _harness as H  # noqa


class CollapseModelB(BaseTestModel):
    g1 = models.IntegerField()


class CollapseModelA(BaseTestModel):
    f1 = models.IntegerField()
    m = models.ManyToManyField(CollapseModelB)
    c1 = models.IntegerField(db_column='custom_c1', null=True)


class RenameFieldCollapseColumnsTests(EvolutionTestCase):
    default_model_name = 'A'
    default_base_model = CollapseModelA
    default_pre_extra_models = [('B', CollapseModelB)]

    def create_data(self):
        cursor = connections['default'].cursor()
        cursor.execute("INSERT INTO tests_b (id, g1) VALUES (1, 100)")
        cursor.execute("INSERT INTO tests_a (id, f1, custom_c1)"
                       " VALUES (1, 10, 3)")
        cursor.execute("INSERT INTO tests_a_m VALUES (1, 1, 1)")

    def check(self, make_mutations):
        problems = H.check(self.start, self.start_sig, make_mutations,
                           self.create_data)
        self.assertEqual(problems, [],
                         '\n' + '\n'.join(text for kind, text in problems))

    def test_rename_rename_with_db_column(self):
        """RenameField(f1, n1) + RenameField(n1, n2, db_column='n2_col')"""
        self.check(lambda: [
            RenameField('A', 'f1', 'n1'),
            RenameField('A', 'n1', 'n2', db_column='n2_col'),
        ])

    def test_rename_with_db_column_rename_without(self):
        """RenameField(c1, c2, db_column='custom_c1') + RenameField(c2, c1)
        """
        self.check(lambda: [
            RenameField('A', 'c1', 'c2', db_column='custom_c1'),
            RenameField('A', 'c2', 'c1'),
        ])

    def test_add_with_db_column_rename_without(self):
        """AddField(n1, db_column='x') + RenameField(n1, n2)"""
        self.check(lambda: [
            AddField('A', 'n1', models.IntegerField, initial=1,
                     db_column='x'),
            RenameField('A', 'n1', 'n2'),
        ])

    def test_add_m2m_rename_with_db_table(self):
        """AddField(m2, M2M) + RenameField(m2, m3, db_table='custom_m3')"""
        self.check(lambda: [
            AddField('A', 'm2', models.ManyToManyField,
                     related_model='tests.B'),
            RenameField('A', 'm2', 'm3', db_table='custom_m3'),
        ])

    def test_rename_m2m_rename_with_db_table(self):
        """RenameField(m, m2) + RenameField(m2, m3, db_table='custom_m3')"""
        self.check(lambda: [
            RenameField('A', 'm', 'm2'),
            RenameField('A', 'm2', 'm3', db_table='custom_m3'),
        ])
