"""SQLite: index SQL from a ChangeMeta is run after a later op's rebuild.

On SQLite the operations for a model that are merged into one
SQLiteAlterTableSQLResult come out as ``pre_sql + <table rebuild> + sql +
post_sql``: the rebuild for *all* the merged column operations is run first
and the plain SQL (CREATE/DROP INDEX from ChangeMeta) afterwards, whatever
the order of the operations was. A ChangeMeta followed by a DeleteField of
one of the fields it names therefore creates its index on a column that's
already gone. SQLite takes the double-quoted unknown column name as a string
literal, so this either leaves a junk index behind or fails on the UNIQUE
check.

One at a time, the index is created, and then dropped along with the column
(DeleteField.simulate() takes the field out of unique_together as well).
"""
from __future__ import unicode_literals

import os
import sys

from django.db import connections, models

from django_evolution.mutations import ChangeMeta, DeleteField
from django_evolution.tests.base_test_case import EvolutionTestCase
from django_evolution.tests.models import BaseTestModel

sys.path.insert(0, os.path.dirname(__file__))
import _harness as H  # noqa


class MetaOrderModelA(BaseTestModel):
    f1 = models.IntegerField()
    f2 = models.CharField(max_length=20)
    f3 = models.IntegerField(null=True)


class ChangeMetaBeforeRebuildTests(EvolutionTestCase):
    default_model_name = 'A'
    default_base_model = MetaOrderModelA

    def create_data(self):
        cursor = connections['default'].cursor()
        cursor.execute("INSERT INTO tests_a (id, f1, f2, f3)"
                       " VALUES (1, 10, 'aa', NULL)")
        cursor.execute("INSERT INTO tests_a (id, f1, f2, f3)"
                       " VALUES (2, 20, 'bb', 30)")

    def check(self, make_mutations):
        problems = H.check(self.start, self.start_sig, make_mutations,
                           self.create_data)
        self.assertEqual(problems, [],
                         '\n' + '\n'.join(text for kind, text in problems))

    def test_unique_together_then_delete_member(self):
        """ChangeMeta(unique_together=[(f1, f2)]) + DeleteField(f1)"""
        self.check(lambda: [
            ChangeMeta('A', 'unique_together', [('f1', 'f2')]),
            DeleteField('A', 'f1'),
        ])

    def test_unique_together_then_delete_both_members(self):
        """ChangeMeta(unique_together=[(f1, f2)]) + DeleteField(f1) +
        DeleteField(f2)
        """
        self.check(lambda: [
            ChangeMeta('A', 'unique_together', [('f1', 'f2')]),
            DeleteField('A', 'f1'),
            DeleteField('A', 'f2'),
        ])

    def test_index_together_then_delete_member(self):
        """ChangeMeta(index_together=[(f1, f3)]) + DeleteField(f3)"""
        self.check(lambda: [
            ChangeMeta('A', 'index_together', [('f1', 'f3')]),
            DeleteField('A', 'f3'),
        ])
