"""Exploration: exhaustive/random differential search (not a deliverable)."""
from __future__ import print_function, unicode_literals

import itertools
import os
import random
import sys
import time

from django.db import connections, models

from django_evolution.mutations import (AddField, ChangeField, ChangeMeta,
                                        DeleteField, DeleteModel, RenameField,
                                        RenameModel, SQLMutation)
from django_evolution.tests.base_test_case import EvolutionTestCase
from django_evolution.tests.models import BaseTestModel

sys.path.insert(0, os.path.dirname(__file__))
import _harness as H  # noqa


class HuntA(BaseTestModel):
    f1 = models.IntegerField()
    f2 = models.CharField(max_length=20)
    f3 = models.IntegerField(null=True, db_index=True)


class HuntB(BaseTestModel):
    g1 = models.IntegerField()
    g2 = models.CharField(max_length=10, null=True)


def noop(simulation):
    pass


ALPHABET = {
    'addA_n1_int': lambda: AddField('A', 'n1', models.IntegerField, initial=7),
    'addA_n1_char': lambda: AddField('A', 'n1', models.CharField,
                                     max_length=10, initial='x'),
    'addA_f1_int_null': lambda: AddField('A', 'f1', models.IntegerField,
                                         null=True),
    'addA_f2_int': lambda: AddField('A', 'f2', models.IntegerField,
                                    initial=3),
    'addA_n1_idx': lambda: AddField('A', 'n1', models.IntegerField,
                                    initial=5, db_index=True),
    'delA_f1': lambda: DeleteField('A', 'f1'),
    'delA_f2': lambda: DeleteField('A', 'f2'),
    'delA_f3': lambda: DeleteField('A', 'f3'),
    'delA_n1': lambda: DeleteField('A', 'n1'),
    'renA_f1_n1': lambda: RenameField('A', 'f1', 'n1'),
    'renA_n1_f1': lambda: RenameField('A', 'n1', 'f1'),
    'renA_f2_f1': lambda: RenameField('A', 'f2', 'f1'),
    'renA_f1_f2': lambda: RenameField('A', 'f1', 'f2'),
    'renA_f3_n1': lambda: RenameField('A', 'f3', 'n1'),
    'chgA_f1_null': lambda: ChangeField('A', 'f1', null=True),
    'chgA_f1_notnull': lambda: ChangeField('A', 'f1', null=False, initial=9),
    'chgA_n1_null': lambda: ChangeField('A', 'n1', null=True),
    'chgA_f2_len': lambda: ChangeField('A', 'f2', max_length=50),
    'chgA_f1_idx': lambda: ChangeField('A', 'f1', db_index=True),
    'chgA_f3_noidx': lambda: ChangeField('A', 'f3', db_index=False),
    'chgA_f3_notnull': lambda: ChangeField('A', 'f3', null=False, initial=4),
    'chgA_f3_null': lambda: ChangeField('A', 'f3', null=True),
    'chgA_n1_idx': lambda: ChangeField('A', 'n1', db_index=True),
    'chgA_f1_unique': lambda: ChangeField('A', 'f1', unique=True),
    'metaA_ut_f1f2': lambda: ChangeMeta('A', 'unique_together',
                                        [('f1', 'f2')]),
    'metaA_ut_none': lambda: ChangeMeta('A', 'unique_together', []),
    'metaA_it_f1f3': lambda: ChangeMeta('A', 'index_together',
                                        [('f1', 'f3')]),
    'renmA_C': lambda: RenameModel('A', 'C', db_table='tests_c'),
    'renmC_A': lambda: RenameModel('C', 'A', db_table='tests_a'),
    'renmB_A': lambda: RenameModel('B', 'A', db_table='tests_a'),
    'delmA': lambda: DeleteModel('A'),
    'delmB': lambda: DeleteModel('B'),
    'addB_g3': lambda: AddField('B', 'g3', models.IntegerField, initial=1),
    'delB_g1': lambda: DeleteField('B', 'g1'),
    'renB_g1_f1': lambda: RenameField('B', 'g1', 'f1'),
    'chgB_g2_len': lambda: ChangeField('B', 'g2', max_length=30),
    'addC_n1': lambda: AddField('C', 'n1', models.IntegerField, initial=2),
    'chgC_f3_noidx': lambda: ChangeField('C', 'f3', db_index=False),
    'chgC_f1_unique': lambda: ChangeField('C', 'f1', unique=True),
    'chgC_f1_idx': lambda: ChangeField('C', 'f1', db_index=True),
    'addC_n1_idx': lambda: AddField('C', 'n1', models.IntegerField,
                                    initial=5, db_index=True),
    'delC_f3': lambda: DeleteField('C', 'f3'),
    'metaC_ut_f1f2': lambda: ChangeMeta('C', 'unique_together',
                                        [('f1', 'f2')]),
    'renA_f3_n3': lambda: RenameField('A', 'f3', 'n3'),
    'chgA_n3_noidx': lambda: ChangeField('A', 'n3', db_index=False),
    'delC_f1': lambda: DeleteField('C', 'f1'),
    'sql': lambda: SQLMutation('barrier', ['SELECT 1;'], update_func=noop),
}


class ExploreBase(object):
    ALPHABET = None


    def create_data(self):
        cursor = connections['default'].cursor()
        cursor.execute("INSERT INTO tests_a (id, f1, f2, f3)"
                       " VALUES (1, 10, 'aa', NULL)")
        cursor.execute("INSERT INTO tests_a (id, f1, f2, f3)"
                       " VALUES (2, 20, 'bb', 30)")
        cursor.execute("INSERT INTO tests_b (id, g1, g2)"
                       " VALUES (1, 100, 'zz')")

    def run_seq(self, keys, stats, seen):
        def make():
            return [self.ALPHABET[k]() for k in keys]

        if not H.simulate_valid(self.start_sig, make()):
            stats['invalid'] = stats.get('invalid', 0) + 1
            return

        kind, details = H.compare(self.start, self.start_sig, make,
                                  self.create_data)
        stats[kind] = stats.get(kind, 0) + 1

        if kind not in ('ok', 'seq-error'):
            print('\n=== %s: %s' % (kind, ' '.join(keys)))

            if kind in ('db-diff', 'evo-db-diff'):
                print(H.describe_db_diff(details[0], details[1]))
            elif kind in ('sig-diff', 'replay-sig-diff', 'evo-sig-diff',
                          'evo-stored-sig-diff', 'evo-mutated-defs'):
                print('  A:', details[0])
                print('  B:', details[1])
            else:
                print('  ', details)

            sys.stdout.flush()
        elif kind == 'seq-error' and os.environ.get('HUNT_SHOW_SEQ'):
            print('\n--- seq-error: %s: %s' % (' '.join(keys), details))

    def test_explore(self):
        mode = os.environ.get('HUNT_MODE', 'exh')
        maxlen = int(os.environ.get('HUNT_LEN', '2'))
        seed = int(os.environ.get('HUNT_SEED', '1'))
        count = int(os.environ.get('HUNT_COUNT', '200'))
        stats = {}
        seen = set()
        t = time.time()
        keys = sorted(self.ALPHABET)

        part, nparts = [int(x) for x in
                        os.environ.get('HUNT_PART', '0/1').split('/')]
        minlen = int(os.environ.get('HUNT_MINLEN', '1'))
        exclude = os.environ.get('HUNT_EXCLUDE', '').split()
        keys = [k for k in keys if not any(k.startswith(e) for e in exclude)]

        if mode == 'exh':
            i = 0

            for n in range(minlen, maxlen + 1):
                for combo in itertools.product(keys, repeat=n):
                    i += 1

                    if i % nparts == part:
                        self.run_seq(combo, stats, seen)
        elif mode == 'one':
            self.run_seq(os.environ['HUNT_SEQ'].split(), stats, seen)
        else:
            rnd = random.Random(seed)
            done = 0

            while done < count:
                n = rnd.randint(2, maxlen)
                combo = []

                # Grow a simulation-valid sequence.
                attempts = 0

                while len(combo) < n and attempts < 200:
                    attempts += 1
                    k = rnd.choice(keys)

                    if H.simulate_valid(self.start_sig,
                                        [self.ALPHABET[x]() for x in combo + [k]]):
                        combo.append(k)

                self.run_seq(combo, stats, seen)
                done += 1

        print('\nSTATS', stats, 'in %.1fs' % (time.time() - t))


class Explore(ExploreBase, EvolutionTestCase):
    ALPHABET = ALPHABET
    default_model_name = 'A'
    default_base_model = HuntA
    default_extra_models = [('B', HuntB)]
