"""A type-changing ChangeField is merged as if it only updated attributes.

ChangeField.simulate() *replaces* the field's attributes with the ones given
to the mutation when ``field_type`` changes the column type (otherwise it
updates them). AppMutator._copy_change_attrs() always merges a later
ChangeField into an earlier ChangeField/AddField with ``dict.update()``, so
attributes set by the earlier mutation (or present on the AddField) survive
a type change that would have reset them one mutation at a time.
"""
from __future__ import unicode_literals

import os
import sys

from django.db import connections, models

from django_evolution.mutations import AddField, ChangeField
from django_evolution.tests.base_test_case import EvolutionTestCase
from django_evolution.tests.models import BaseTestModel

sys.path.insert(0, os.path.dirname(__file__))
import _harness as H  # noqa


class TypeMergeModelA(BaseTestModel):
    f1 = models.IntegerField()
    f2 = models.CharField(max_length=20)


class ChangeFieldTypeMergeTests(EvolutionTestCase):
    default_model_name = 'A'
    default_base_model = TypeMergeModelA

    def create_data(self):
        cursor = connections['default'].cursor()
        cursor.execute("INSERT INTO tests_a (id, f1, f2)"
                       " VALUES (1, 10, '11')")

    def check(self, make_mutations):
        problems = H.check(self.start, self.start_sig, make_mutations,
                           self.create_data)
        self.assertEqual(problems, [],
                         '\n' + '\n'.join(text for kind, text in problems))

    def test_change_db_index_then_type(self):
        """ChangeField(f2, db_index=True) + ChangeField(f2, IntegerField)"""
        self.check(lambda: [
            ChangeField('A', 'f2', db_index=True),
            ChangeField('A', 'f2', field_type=models.IntegerField),
        ])

    def test_change_null_then_type(self):
        """ChangeField(f1, null=True) + ChangeField(f1, CharField)"""
        self.check(lambda: [
            ChangeField('A', 'f1', null=True),
            ChangeField('A', 'f1', field_type=models.CharField,
                        max_length=10),
        ])

    def test_add_then_change_type(self):
        """AddField(n1, CharField, max_length=10) + ChangeField(n1, Integer)
        """
        self.check(lambda: [
            AddField('A', 'n1', models.CharField, max_length=10,
                     initial='5'),
            ChangeField('A', 'n1', field_type=models.IntegerField),
        ])
