"""Optimised runs reorder mutations by model name.

AppMutator._process_mutation_batch() ends by regrouping the surviving
mutations with ``sorted(model_names)``. Mutations of different models are
therefore executed in alphabetical model order, not in the order that was
written, even when a RenameModel/DeleteModel (or a relation to a renamed
model) makes a later mutation depend on an earlier one.

Every sequence below is valid one mutation at a time. The optimised run (bare
AppMutator, and the Evolver/EvolveAppTask pipeline) must accept it and end
in the same signature/schema/rows.
"""
from __future__ import unicode_literals

import os
import sys

from django.db import connections, models

from django_evolution.mutations import (AddField, ChangeField, DeleteModel,
                                        RenameModel)
from django_evolution.tests.base_test_case import EvolutionTestCase
from django_evolution.tests.models import BaseTestModel

sys.path.insert(0, os.path.dirname(__file__))
import _harness as H  # noqa


class SortModelA(BaseTestModel):
    f1 = models.IntegerField()
    f2 = models.CharField(max_length=20)


class SortModelB(BaseTestModel):
    f1 = models.IntegerField()
    g2 = models.CharField(max_length=10, null=True)


class ModelNameSortTests(EvolutionTestCase):
    default_model_name = 'A'
    default_base_model = SortModelA
    default_extra_models = [('B', SortModelB)]

    def create_data(self):
        cursor = connections['default'].cursor()
        cursor.execute("INSERT INTO tests_a (id, f1, f2) VALUES (1, 10, 'a')")
        cursor.execute("INSERT INTO tests_b (id, f1, g2) VALUES (1, 20, 'b')")

    def check(self, make_mutations):
        problems = H.check(self.start, self.start_sig, make_mutations,
                           self.create_data)
        self.assertEqual(problems, [],
                         '\n' + '\n'.join(text for kind, text in problems))

    def test_rename_model_then_add_field_to_new_name(self):
        """RenameModel('B', 'Aa') + AddField('Aa', ...)"""
        self.check(lambda: [
            RenameModel('B', 'Aa', db_table='tests_aa'),
            AddField('Aa', 'n1', models.IntegerField, initial=7),
        ])

    def test_delete_model_then_rename_other_to_its_name(self):
        """DeleteModel('B') + RenameModel('A', 'B')"""
        self.check(lambda: [
            DeleteModel('B'),
            RenameModel('A', 'B', db_table='tests_b'),
        ])

    def test_rename_model_then_add_fk_to_new_name(self):
        """RenameModel('B', 'Bb') + AddField('A', FK -> tests.Bb)"""
        self.check(lambda: [
            RenameModel('B', 'Bb', db_table='tests_bb'),
            AddField('A', 'fk', models.ForeignKey, null=True,
                     related_model='tests.Bb'),
        ])

    def test_add_fk_then_rename_target_model(self):
        """AddField('A', FK -> tests.B) + RenameModel('B', 'Bb')"""
        self.check(lambda: [
            AddField('A', 'fk', models.ForeignKey, null=True,
                     related_model='tests.B'),
            RenameModel('B', 'Bb', db_table='tests_bb'),
        ])

    def test_swap_names_then_change_field(self):
        """RenameModel('A', 'C') + RenameModel('B', 'A') + ChangeField('A')"""
        self.check(lambda: [
            RenameModel('A', 'C', db_table='tests_c'),
            RenameModel('B', 'A', db_table='tests_a'),
            ChangeField('A', 'f1', null=True),
        ])
