"""Collapsed RenameModel chains leave other mutations on a dead model name.

AppMutator._process_mutation_batch() collapses RenameModel('A', 'C') ...
RenameModel('C', 'D') into one RenameModel('A', 'D') at the position of the
first rename (and removes the renames altogether when the model is deleted
later in the batch), but the mutations in between that address the model by
its intermediate name ('C') are left untouched. They are then run against a
model name that never exists in the optimised run.

No name is reused here and the model names are already in alphabetical order,
so this is independent of the sorting by model name.
"""
from __future__ import unicode_literals

import os
import sys

from django.db import connections, models

from django_evolution.mutations import (AddField, ChangeField, DeleteField,
                                        DeleteModel, RenameModel)
from django_evolution.tests.base_test_case import EvolutionTestCase
from django_evolution.tests.models import BaseTestModel

sys.path.insert(0, os.path.dirname(__file__))
import _harness as H  # noqa


class ChainModelA(BaseTestModel):
    f1 = models.IntegerField()
    f2 = models.CharField(max_length=20)


class ChainModelB(BaseTestModel):
    f1 = models.IntegerField()


class RenameModelChainTests(EvolutionTestCase):
    default_model_name = 'A'
    default_base_model = ChainModelA
    default_extra_models = [('B', ChainModelB)]

    def create_data(self):
        cursor = connections['default'].cursor()
        cursor.execute("INSERT INTO tests_a (id, f1, f2) VALUES (1, 10, 'a')")
        cursor.execute("INSERT INTO tests_b (id, f1) VALUES (1, 20)")

    def check(self, make_mutations):
        problems = H.check(self.start, self.start_sig, make_mutations,
                           self.create_data)
        self.assertEqual(problems, [],
                         '\n' + '\n'.join(text for kind, text in problems))

    def test_rename_add_field_rename(self):
        """RenameModel(A, C) + AddField(C) + RenameModel(C, D)"""
        self.check(lambda: [
            RenameModel('A', 'C', db_table='tests_c'),
            AddField('C', 'n1', models.IntegerField, initial=7),
            RenameModel('C', 'D', db_table='tests_d'),
        ])

    def test_rename_change_field_rename(self):
        """RenameModel(A, C) + ChangeField(C) + RenameModel(C, D)"""
        self.check(lambda: [
            RenameModel('A', 'C', db_table='tests_c'),
            ChangeField('C', 'f1', null=True),
            RenameModel('C', 'D', db_table='tests_d'),
        ])

    def test_rename_delete_field_delete_model(self):
        """RenameModel(A, C) + DeleteField(C) + DeleteModel(C)"""
        self.check(lambda: [
            RenameModel('A', 'C', db_table='tests_c'),
            DeleteField('C', 'f1'),
            DeleteModel('C'),
        ])
