"""The optimiser identifies a model by its name for the whole batch.

AppMutator._process_mutation_batch() tracks ``deleted_models`` and
``model_renames`` (and all the per-field state) by model name. When a model
name is freed by a RenameModel/DeleteModel and then taken by *another* model
(RenameModel to that name) in the same batch, collapsing RenameModel +
DeleteModel into a DeleteModel at the later position (or a RenameModel chain
into the first RenameModel) moves an operation across the point where the
name changes hands.

Every sequence below is valid one mutation at a time.
"""
from __future__ import unicode_literals

import os
import sys

from django.db import connections, models

from django_evolution.mutations import DeleteModel, RenameModel
from django_evolution.tests.base_test_case import EvolutionTestCase
from django_evolution.tests.models import BaseTestModel

sys.path.insert(0, os.path.dirname(__file__))
import _harness as H  # noqa


class MReuseModelA(BaseTestModel):
    f1 = models.IntegerField()
    f2 = models.CharField(max_length=20)


class MReuseModelB(BaseTestModel):
    f1 = models.IntegerField()


class ModelNameReuseTests(EvolutionTestCase):
    default_model_name = 'A'
    default_base_model = MReuseModelA
    default_extra_models = [('B', MReuseModelB)]

    def create_data(self):
        cursor = connections['default'].cursor()
        cursor.execute("INSERT INTO tests_a (id, f1, f2) VALUES (1, 10, 'a')")
        cursor.execute("INSERT INTO tests_b (id, f1) VALUES (1, 20)")

    def check(self, make_mutations):
        problems = H.check(self.start, self.start_sig, make_mutations,
                           self.create_data)
        self.assertEqual(problems, [],
                         '\n' + '\n'.join(text for kind, text in problems))

    def test_rename_away_rename_onto_delete_renamed(self):
        """RenameModel(B, C) + RenameModel(A, B) + DeleteModel(C)

        (The mirrored RenameModel(A, C) + RenameModel(B, A) + DeleteModel(C)
        only works on the unmodified code because sorting by model name
        happens to put the resulting DeleteModel('A') first.)
        """
        self.check(lambda: [
            RenameModel('B', 'C', db_table='tests_c'),
            RenameModel('A', 'B', db_table='tests_b'),
            DeleteModel('C'),
        ])

    def test_rename_away_rename_onto_delete_renamed_mirrored(self):
        """RenameModel(A, C) + RenameModel(B, A) + DeleteModel(C)"""
        self.check(lambda: [
            RenameModel('A', 'C', db_table='tests_c'),
            RenameModel('B', 'A', db_table='tests_a'),
            DeleteModel('C'),
        ])

    def test_rename_delete_other_rename_onto_it(self):
        """RenameModel(A, C) + DeleteModel(B) + RenameModel(C, B)"""
        self.check(lambda: [
            RenameModel('A', 'C', db_table='tests_c'),
            DeleteModel('B'),
            RenameModel('C', 'B', db_table='tests_b'),
        ])

    def test_three_way_swap(self):
        """RenameModel(A, C) + RenameModel(B, A) + RenameModel(C, B)"""
        self.check(lambda: [
            RenameModel('A', 'C', db_table='tests_c'),
            RenameModel('B', 'A', db_table='tests_a'),
            RenameModel('C', 'B', db_table='tests_b'),
        ])
