#!/venv/bin/python
"""Re-base the stored refactoring patches (refactors/r*_?.diff) onto /repo's
HEAD after a fix commit moved it.

For every patch that no longer applies to HEAD: find the newest ancestor
commit B it applies to, build  B -> B+patch  and  B -> HEAD  in a scratch
repository and merge them (3-way).  A clean merge is written back (the
previous version is kept as <name>_on_<B>.diff.orig); conflicts are left in
/tmp/rebase_<name> for manual resolution and reported.
usage: rebase_refactors.py [names...]"""
import glob, os, shutil, subprocess, sys
VERIF = '/verif'
def sh(cmd, cwd=None, ok=False):
    r = subprocess.run(cmd, shell=True, cwd=cwd, stdout=subprocess.PIPE, stderr=subprocess.STDOUT)
    if r.returncode and not ok:
        raise RuntimeError('%s\n%s' % (cmd, r.stdout.decode()))
    return r.returncode, r.stdout.decode()
G = '-c user.email=a@b -c user.name=x'
names = sys.argv[1:] or sorted(os.path.basename(f)[:-5] for f in glob.glob(VERIF + '/refactors/r*_?.diff'))
commits = sh('git -C /repo log --format=%h -40')[1].split()
for name in names:
    patch = '%s/refactors/%s.diff' % (VERIF, name)
    if sh('git -C /repo apply --check %s' % patch, ok=True)[0] == 0:
        continue
    base = None
    for c in commits[1:]:
        d = '/tmp/rebase_probe'
        shutil.rmtree(d, ignore_errors=True); os.makedirs(d)
        sh('git -C /repo archive %s django_evolution | tar -x -C %s' % (c, d))
        sh('git init -q .', cwd=d)
        if sh('git apply --check %s' % patch, cwd=d, ok=True)[0] == 0:
            base = c
            break
    shutil.rmtree('/tmp/rebase_probe', ignore_errors=True)
    if base is None:
        print(name, 'NO BASE FOUND'); continue
    d = '/tmp/rebase_%s' % name
    shutil.rmtree(d, ignore_errors=True); os.makedirs(d)
    sh('git init -q .', cwd=d)
    sh('git -C /repo archive %s django_evolution | tar -x -C %s' % (base, d))
    sh('git add -A && git %s commit -qm base' % G, cwd=d)
    sh('git checkout -q -b head', cwd=d)
    sh('rm -rf django_evolution && git -C /repo archive HEAD django_evolution | tar -x -C %s' % d, cwd=d)
    sh('git add -A && git %s commit -qm head' % G, cwd=d)
    sh('git checkout -q -b ref HEAD~1', cwd=d)
    sh('git apply %s && git add -A && git %s commit -qm ref' % (patch, G), cwd=d)
    rc, out = sh('git %s merge -q head -m merged' % G, cwd=d, ok=True)
    if rc != 0:
        print(name, 'CONFLICT (base %s) - resolve in %s, then: cd %s && git diff head -- django_evolution > %s' % (base, d, d, patch))
        continue
    sh('git diff head -- django_evolution > /tmp/%s_rebased.diff' % name, cwd=d)
    if sh('git -C /repo apply --check /tmp/%s_rebased.diff' % name, ok=True)[0] != 0:
        print(name, 'rebased patch does not apply?!'); continue
    shutil.copy(patch, '%s/refactors/%s_on_%s.diff.orig' % (VERIF, name, base))
    shutil.copy('/tmp/%s_rebased.diff' % name, patch)
    shutil.rmtree(d, ignore_errors=True)
    print(name, 'rebased cleanly from', base)
