#!/venv/bin/python
"""Confirm a seeded change in its scratch worktree and evaluate the checks
against it.

usage: seed_confirm.py <worktree> <seed-id> <property> [--demo <path rel to wt>] [--skip-suite]

1. demo with the change applied must FAIL, with the change stashed must PASS;
2. the full baseline suite with the change applied must report 596 passed;
3. copy patch + demo + notes to /verif/seeded/<seed-id>/;
4. apply the patch to /repo, run every registered quick check, record which
   checks report a VIOLATION (and which rules), undo with git checkout.
"""
import json, os, re, shutil, subprocess, sys, time

wt, sid, prop = sys.argv[1:4]
args = sys.argv[4:]
demo = None
if '--demo' in args:
    demo = args[args.index('--demo') + 1]
skip_suite = '--skip-suite' in args
VERIF = '/verif'
PY = '/venv/bin/python'


def sh(cmd, cwd=None, timeout=1800):
    r = subprocess.run(cmd, shell=True, cwd=cwd, stdout=subprocess.PIPE,
                       stderr=subprocess.STDOUT, timeout=timeout)
    return r.returncode, r.stdout.decode('utf-8', 'replace')


if demo is None:
    cands = []
    for root, _, files in os.walk(os.path.join(wt, 'seed_demo')):
        for f in files:
            if f.endswith('.py') and not f.startswith('__') and f != 'conftest.py':
                cands.append(os.path.relpath(os.path.join(root, f), wt))
    cands.sort(key=lambda x: (not os.path.basename(x).startswith('test_'), x))
    demo = cands[0]
is_pytest = os.path.basename(demo).startswith('test_')
demo_cmd = ('%s -m pytest %s --rootdir=%s -c %s/setup.cfg -p no:cacheprovider -q'
            % (PY, demo, wt, wt)) if is_pytest else '%s %s' % (PY, demo)

# git stash is shared between worktrees: never use it.  The agent's
# SEED_PATCH.diff is authoritative; re-create the worktree state from it.
patch = open(os.path.join(wt, 'SEED_PATCH.diff')).read()
assert patch.strip(), 'empty SEED_PATCH.diff'
tmp_patch = os.path.join(wt, '.seed_confirm.patch')
open(tmp_patch, 'w').write(patch)
sh('git checkout -- django_evolution', cwd=wt)
rc, out = sh('git apply %s' % tmp_patch, cwd=wt)
assert rc == 0, 'SEED_PATCH.diff does not apply to a clean worktree: %s' % out
rc, patch2 = sh('git diff -- django_evolution', cwd=wt)
patch = patch2
meta = {'seed_id': sid, 'property': prop, 'demo': demo, 'demo_cmd': demo_cmd}

rc1, out1 = sh(demo_cmd, cwd=wt)
meta['demo_with_change'] = {'rc': rc1, 'tail': out1.strip().splitlines()[-3:]}
sh('git apply -R %s' % tmp_patch, cwd=wt)
try:
    rc0, out0 = sh(demo_cmd, cwd=wt)
finally:
    rcp, outp = sh('git apply %s' % tmp_patch, cwd=wt)
meta['demo_without_change'] = {'rc': rc0, 'tail': out0.strip().splitlines()[-3:]}
print('demo with change rc=%d, without rc=%d' % (rc1, rc0))
if not skip_suite:
    t = time.time()
    rcs, outs = sh('%s -m pytest -q -p no:cacheprovider --timeout=900' % PY, cwd=wt)
    tail = outs.strip().splitlines()[-1]
    meta['suite_with_change'] = {'rc': rcs, 'tail': tail, 'secs': round(time.time() - t)}
    print('suite:', tail)
meta['confirmed'] = bool(rc1 != 0 and rc0 == 0 and (skip_suite or ('596 passed' in meta['suite_with_change']['tail'] and ' failed' not in meta['suite_with_change']['tail'])))

dst = os.path.join(VERIF, 'seeded', sid)
os.makedirs(dst, exist_ok=True)
open(os.path.join(dst, 'patch.diff'), 'w').write(patch)
if os.path.isdir(os.path.join(dst, 'seed_demo')):
    shutil.rmtree(os.path.join(dst, 'seed_demo'))
shutil.copytree(os.path.join(wt, 'seed_demo'), os.path.join(dst, 'seed_demo'),
                ignore=shutil.ignore_patterns('__pycache__', '*.pyc', '*.db', 'FOREIGN*'))
if os.path.exists(os.path.join(wt, 'SEED_NOTES.md')):
    shutil.copy(os.path.join(wt, 'SEED_NOTES.md'), os.path.join(dst, 'NOTES.md'))

# evaluate the checks against the patch applied to /repo (one at a time:
# several confirmations may run their demos/suites in parallel)
import fcntl
_lock = open('/tmp/seed_confirm.lock', 'w')
fcntl.flock(_lock, fcntl.LOCK_EX)
rc, out = sh('git -C /repo status --porcelain')
assert not out.strip(), '/repo is dirty: %s' % out
rc, out = sh('git -C /repo apply %s' % os.path.join(dst, 'patch.diff'))
assert rc == 0, 'patch does not apply to /repo: %s' % out
caught = {}
try:
    manifest = json.load(open(os.path.join(VERIF, 'MANIFEST.json')))
    for c in manifest['checks']:
        pid = c['property_id']
        ev = os.path.join(VERIF, 'evidence', '%s.json' % pid)
        bak = open(ev).read() if os.path.exists(ev) else None
        rcq, outq = sh(c['quick_cmd'], cwd=VERIF)
        rules = sorted(set(re.findall(r'  (R-C\d+\.\d+)  ', outq)))
        if rcq != 0:
            caught[pid] = {'rc': rcq, 'rules': rules,
                           'lines': [l for l in outq.splitlines() if '  R-C' in l][:4]}
        if bak is not None:
            open(ev, 'w').write(bak)   # keep evidence of the unchanged tree
finally:
    sh('git -C /repo checkout -- .')
    shutil.rmtree(os.path.join(VERIF, 'evidence', 'replay'), ignore_errors=True)
meta['checks_reporting_violation'] = caught
meta['caught_by_own_property'] = prop in caught and caught[prop]['rc'] == 1
json.dump(meta, open(os.path.join(dst, 'meta.json'), 'w'), indent=1)
print('confirmed:', meta['confirmed'], '| caught by:', {k: v['rules'] for k, v in caught.items()})
