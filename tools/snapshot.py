#!/venv/bin/python
"""Refresh selftest/pristine from /repo's non-test modules."""
import os, shutil
src = '/repo/django_evolution'
dst = os.path.join(os.path.dirname(os.path.dirname(os.path.abspath(__file__))), 'selftest', 'pristine', 'django_evolution')
shutil.rmtree(dst, ignore_errors=True)
def ign(d, names):
    return [n for n in names if n in ('tests', '__pycache__') or n.endswith('.pyc') or (not n.endswith('.py') and not os.path.isdir(os.path.join(d, n)))]
shutil.copytree(src, dst, ignore=ign)
print(sum(len(f) for _, _, f in os.walk(dst)), 'files')
