#!/venv/bin/python
"""Show what the inliner / alpha-normaliser do on a tree.
usage: inline_debug.py <root> [qualname-substring]"""
import ast, os, sys
sys.path.insert(0, '/verif')
from sa.program import Program
from sa import alpha
root = sys.argv[1]
flt = sys.argv[2] if len(sys.argv) > 2 else None
p = Program(root=root)
print('inlined:'); [print('  ', r) for r in p.inlined]
print('skipped:'); [print('  ', r) for r in p.inline_skipped]
print('alpha:'); [print('  ', r) for r in p.alpha_renamed]
ref = Program(root=p.reference, reference=None)
callers = {(m, q) for m, q, h in p.inlined}
for m, q in sorted(callers):
    cur = alpha._functions(p.modules[m].tree).get(q)
    rf = alpha._functions(ref.modules[m].tree).get(q) if m in ref.modules else None
    if cur is None:
        print(m, q, 'gone (inlined further)'); continue
    same = rf is not None and ast.dump(cur) == ast.dump(rf)
    print(m, q, 'IDENTICAL to reference' if same else 'differs from reference')
    if not same and (flt is None or flt in q):
        import difflib
        a = ast.unparse(rf).splitlines() if rf is not None else []
        b = ast.unparse(cur).splitlines()
        for l in difflib.unified_diff(a, b, 'reference', 'normalised', lineterm='', n=1):
            print('    ', l)
