#!/venv/bin/python
"""Regenerate /verif/MANIFEST.json from the rule modules' metadata."""
import importlib, json, os, sys
HERE = os.path.dirname(os.path.dirname(os.path.abspath(__file__)))
sys.path.insert(0, HERE)
sys.dont_write_bytecode = True
props = [json.loads(l) for l in open(os.path.join(HERE, 'properties.jsonl'))]
NA = {
    'C04': 'compares database contents and recorded labels across alternative '
           'run histories (fresh/direct/stepwise); every structural clause it '
           'has is already decided under C07 (record only after success), C08 '
           '(whole sequence recorded for a fresh app) and C12 (gate before '
           'execution); no clause specific to C04 is both structural and '
           'necessary, so static analysis cannot decide it (DESIGN.md section 9)',
}
checks, claimed, na = [], [], []
for p in props:
    pid = p['id']
    path = os.path.join(HERE, 'sa', 'rules', pid.lower() + '.py')
    if pid in NA or not os.path.exists(path):
        na.append({'property_id': pid, 'reason': NA.get(
            pid, 'check not built yet (build phase in progress)')})
        continue
    m = importlib.import_module('sa.rules.' + pid.lower())
    claimed.append(pid)
    checks.append({
        'property_id': pid,
        'quick_cmd': '/venv/bin/python /verif/check.py %s --tier quick' % pid,
        'thorough_cmd': '/venv/bin/python /verif/check.py %s --tier thorough' % pid,
        'evidence_file': '/verif/evidence/%s.json' % pid,
        'replay_cmd_template': '/venv/bin/python /verif/check.py --replay {path}',
        'engine': 'sa',
        'level_claimed': {
            'category': 'other',
            'text': 'Static analysis of /repo\'s source decides named structural '
                    'clauses that are necessary conditions of the property, on '
                    'every path / for every table entry; it does not decide the '
                    'behaviour itself. ' + m.EXPLANATION,
            'design_ref': 'DESIGN.md section 4, %s' % pid,
        },
        'level_note': m.LEVEL_NOTE + ' Not decided: ' + m.NOT_DECIDED,
        'technique': 'static analysis: ' + m.TECHNIQUE,
    })
manifest = {
    'version': 1,
    'setup_cmd': 'true',
    'hooks': {
        'guard': 'DJANGO_EVOLUTION_VERIF',
        'enable': 'none needed: the checks parse /repo\'s working tree and '
                  'execute nothing, so no source hooks exist',
        'baseline_off_cmd': 'cd /repo && /venv/bin/python -m pytest -q '
                            '-p no:cacheprovider --timeout=900',
        'source_commits': [],
        'add_only': True,
    },
    'engines': [{
        'name': 'sa', 'path': 'sa/', 'serves_properties': claimed,
        'kind_free_text': 'stdlib-ast static analyser written for this '
        'repository: CHA call graph, statement CFG with short-circuit and '
        'exceptional edges, dominators / must-pass-through, reaching '
        'definitions and taint, table-agreement rules',
    }],
    'checks': checks,
    'notes': 'All checks are static (family: static analysis). Exit 0 holds / '
             'only KNOWN-FINDING lines; exit 1 VIOLATION; exit 2 '
             'ANALYSIS-ERROR (anchor vanished / checker broken). Known and '
             'fixed findings: known_findings.json. Thorough tier = quick + '
             'whole-package scope + both-way self-test on a pinned snapshot.',
    'not_applicable': na,
}
json.dump(manifest, open(os.path.join(HERE, 'MANIFEST.json'), 'w'), indent=1)
print('claimed', claimed, 'n/a', [x['property_id'] for x in na])
