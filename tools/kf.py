#!/venv/bin/python
"""Add known-findings entries from replay files.
usage: kf.py <status known|fixed> <what_fails> <witness> [--commit SHA] replay.json..."""
import json, sys, os
HERE = os.path.dirname(os.path.dirname(os.path.abspath(__file__)))
args = sys.argv[1:]
status, what, witness = args[:3]
rest = args[3:]
commit = None
if rest and rest[0] == '--commit':
    commit = rest[1]; rest = rest[2:]
path = os.path.join(HERE, 'known_findings.json')
kf = json.load(open(path))
for r in rest:
    d = json.load(open(r))
    e = {'property': d['property'], 'rule': d['rule'], 'module': d['module'], 'qualname': d['qualname'], 'key': d['key'], 'status': status, 'what_fails': what, 'witness': witness}
    if commit: e['commit'] = commit
    if any(all(k.get(x) == e[x] for x in ('property','rule','module','qualname','key')) for k in kf):
        print('already listed', e['key']); continue
    kf.append(e)
json.dump(kf, open(path, 'w'), indent=1)
print(len(kf), 'entries')
