#!/venv/bin/python
"""Re-evaluate all registered quick checks against stored seeded changes.
usage: seed_eval.py [seed-id ...]   (default: all under /verif/seeded)"""
import json, os, re, shutil, subprocess, sys
VERIF = '/verif'
def sh(cmd, cwd=None):
    r = subprocess.run(cmd, shell=True, cwd=cwd, stdout=subprocess.PIPE, stderr=subprocess.STDOUT)
    return r.returncode, r.stdout.decode('utf-8', 'replace')
ids = sys.argv[1:] or sorted(d for d in os.listdir(os.path.join(VERIF, 'seeded')) if not d.startswith('_'))
manifest = json.load(open(os.path.join(VERIF, 'MANIFEST.json')))
rc, out = sh('git -C /repo status --porcelain')
assert not out.strip(), '/repo dirty'
for sid in ids:
    d = os.path.join(VERIF, 'seeded', sid)
    mp = os.path.join(d, 'meta.json')
    if not os.path.exists(mp):
        continue
    meta = json.load(open(mp))
    rc, out = sh('git -C /repo apply %s' % os.path.join(d, 'patch.diff'))
    if rc != 0:
        print(sid, 'PATCH DOES NOT APPLY', out); continue
    caught = {}
    try:
        for c in manifest['checks']:
            pid = c['property_id']
            ev = os.path.join(VERIF, 'evidence', '%s.json' % pid)
            bak = open(ev).read() if os.path.exists(ev) else None
            rcq, outq = sh(c['quick_cmd'], cwd=VERIF)
            if rcq != 0:
                caught[pid] = {'rc': rcq, 'rules': sorted(set(re.findall(r'  (R-C\d+\.\d+)  ', outq))),
                               'lines': [l for l in outq.splitlines() if '  R-C' in l][:4]}
            if bak is not None:
                open(ev, 'w').write(bak)
    finally:
        sh('git -C /repo checkout -- .')
        shutil.rmtree(os.path.join(VERIF, 'evidence', 'replay'), ignore_errors=True)
    meta['checks_reporting_violation'] = caught
    meta['caught_by_own_property'] = meta['property'] in caught and caught[meta['property']]['rc'] == 1
    json.dump(meta, open(mp, 'w'), indent=1)
    print('%-40s own=%-5s %s' % (sid, meta['caught_by_own_property'], {k: (v['rc'], v['rules']) for k, v in caught.items()}))
