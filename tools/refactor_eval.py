#!/venv/bin/python
"""Apply behaviour-preserving refactoring patches to /repo one at a time and
run every registered quick check: any non-zero exit is a false alarm (or an
analysis error) of the checker.
usage: refactor_eval.py <patch.diff> ...   (patches are stored under /verif/refactors/)"""
import json, os, re, shutil, subprocess, sys
VERIF = '/verif'
def sh(cmd, cwd=None):
    r = subprocess.run(cmd, shell=True, cwd=cwd, stdout=subprocess.PIPE, stderr=subprocess.STDOUT)
    return r.returncode, r.stdout.decode('utf-8', 'replace')
manifest = json.load(open(os.path.join(VERIF, 'MANIFEST.json')))
rc, out = sh('git -C /repo status --porcelain')
assert not out.strip(), '/repo dirty'
report = {}
for patch in sys.argv[1:]:
    patch = os.path.abspath(patch)
    rc, out = sh('git -C /repo apply %s' % patch)
    if rc != 0:
        print(os.path.basename(patch), 'DOES NOT APPLY', out[:200]); continue
    alarms = {}
    try:
        for c in manifest['checks']:
            pid = c['property_id']
            ev = os.path.join(VERIF, 'evidence', '%s.json' % pid)
            bak = open(ev).read() if os.path.exists(ev) else None
            rcq, outq = sh(c['quick_cmd'], cwd=VERIF)
            if rcq != 0:
                lines = [l for l in outq.splitlines() if '  R-C' in l or 'ANALYSIS-ERROR' in l]
                alarms[pid] = {'rc': rcq, 'lines': [l[:260] for l in lines[:3]]}
            if bak is not None:
                open(ev, 'w').write(bak)
    finally:
        sh('git -C /repo checkout -- .')
        shutil.rmtree(os.path.join(VERIF, 'evidence', 'replay'), ignore_errors=True)
    report[os.path.relpath(patch, VERIF)] = alarms
    print('%-40s %s' % (os.path.relpath(patch, VERIF), 'silent' if not alarms else 'ALARMS: %s' % {k: v['rc'] for k, v in alarms.items()}))
    for k, v in alarms.items():
        for l in v['lines']:
            print('      ', k, l)
json.dump(report, open(os.path.join(VERIF, 'refactors', 'last_eval.json'), 'w'), indent=1)
