#!/venv/bin/python
"""Print a module (or one class/function of it) without docstrings."""
import ast, sys
path = sys.argv[1]
if not path.startswith('/'):
    path = '/repo/django_evolution/' + path
want = sys.argv[2:]
tree = ast.parse(open(path).read())
for n in ast.walk(tree):
    if isinstance(n, (ast.FunctionDef, ast.ClassDef, ast.Module)):
        if n.body and isinstance(n.body[0], ast.Expr) and isinstance(getattr(n.body[0], 'value', None), ast.Constant) and isinstance(n.body[0].value.value, str):
            n.body = n.body[1:] or [ast.Pass()]
if not want:
    print(ast.unparse(tree))
else:
    for n in ast.walk(tree):
        if isinstance(n, (ast.FunctionDef, ast.ClassDef)) and n.name in want:
            print('# line', n.lineno)
            print(ast.unparse(n)); print()
